(* C01 -- reliable data channels deliver every message exactly once, intact, in order.
   Property theorems only; proofs in Proof/SctpRecvP.v, SctpC01P.v, SctpSendP.v, SctpDupP.v,
   SctpOrderP.v (stream automaton), SctpOrderSP.v (sender numbering), SctpOrderTP.v
   (transport), SctpOrderEP.v (end to end), SctpOnceP.v / SctpOnceEP.v (at most once).

   Network abstraction: loss, duplication, reordering and delay of DATA packets are
   subsumed by "the receiver sees an ARBITRARY list of events each of which is one of
   the chunks the sender produced"; faults on the SACK path cannot influence what the
   receiver delivers.  "Every observation instant" = every prefix of that list, and
   a prefix of such a list is such a list. *)
From Coq Require Import ZArith List Bool.
From AV Require Import Lib.Bytes Gen.Utils Gen.SctpConst Model.SctpRecv Model.SctpSend
  Proof.SctpRecvP Proof.SctpC01P Proof.SctpSendP Proof.SctpDupP Proof.SctpOrderP Proof.SctpOrderSP
  Proof.SctpOrderTP Proof.SctpOrderEP Proof.SctpOnceP Proof.SctpOnceEP Proof.SctpOnceFwdP Proof.SctpCompleteEP.
Import ListNotations.
Local Open Scope Z_scope.

(* 1. Fragmentation (_send) is lossless: the user data of the fragments concatenate to
   the message, first/last fragment carry B/E, all fragments carry the message's
   stream, ppid and ordering flag, none exceeds USERDATA_MAX_LENGTH (the GENERATED
   constant), and their TSNs are consecutive from _local_tsn. *)
Theorem C01_fragment_reassemble : forall s m, o_data m <> [] ->
  let cs := snd (send_msg s m) in
  join_data cs = o_data m /\
  cs <> [] /\
  first (hd (mkChunk 0 0 0 false false false 0 []) cs) = true /\
  last (List.last cs (mkChunk 0 0 0 false false false 0 [])) = true /\
  Forall (fun c => sid c = o_sid m /\ ppid c = o_ppid m /\ unordered c = negb (o_ordered m) /\
                   (len (udata c) <= USERDATA_MAX_LENGTH)) cs /\
  map tsn cs = tsn_seq (length cs) (local_tsn s).
Proof. exact send_msg_fragments. Qed.
Print Assumptions C01_fragment_reassemble.

(* 2. Integrity and channel identity.  For ANY list of messages (any sizes, streams,
   ordered or not, any ppid), ANY initial TSN (wrap-around included), fewer than 2^32
   chunks in total, and ANY event list made of DATA chunks drawn from what the sender
   produced (in any order, with any repetitions and omissions) interleaved with ANY
   FORWARD-TSN chunks: every message the receiver hands to the application is
   (stream, ppid, data) of one of the sent messages. *)
Theorem C01_delivered_is_sent : forall t0 msgs base es,
  in32 t0 ->
  Forall (fun m => o_data m <> []) msgs ->
  Z.of_nat (total_frags msgs) <= SCTP_TSN_MODULO ->
  Forall (ev_ok (concat (send_msgs (mkS t0 []) msgs))) es ->
  Forall (fun o => Forall (fun d => exists m, In m msgs /\ d = (o_sid m, o_ppid m, o_data m)) (out_msgs o))
         (snd (rrun (rinit base) es)).
Proof.
  intros t0 msgs base es Ht Hne Htot Hes.
  set (sm := sent_of (mkS t0 []) msgs).
  assert (Hall : all_chunks sm = concat (send_msgs (mkS t0 []) msgs)).
  { unfold all_chunks, sm. now rewrite sent_of_frags. }
  rewrite <- Hall in Hes.
  pose proof (delivered_is_sent sm es (rinit base) (sent_of_ok _ _ Hne)
                (sent_of_tsn_inj (mkS t0 []) msgs Ht Htot) (chunks_in_rinit _ base) Hes) as H.
  eapply Forall_impl; [|exact H]. intros o Ho. eapply Forall_impl; [|exact Ho].
  intros d (m & Hm & ->). destruct (sent_of_msgs _ _ _ Hm) as (m' & H1 & -> & -> & ->). eauto.
Qed.
Print Assumptions C01_delivered_is_sent.

(* 3. No duplicate acceptance.  For any initial cumulative TSN `base` anywhere in the
   32-bit space and any list of DATA chunks whose TSNs lie within a window of N < 2^31
   TSNs after it, a TSN enters a reassembly queue at most once however often it
   arrives, and InboundStream.add_chunk's "duplicate chunk" assertion is unreachable. *)
Theorem C01_no_duplicate_accept : forall base N es,
  r32 base -> 0 <= N < 2147483648 -> Forall (data_ev base N) es ->
  NoDup (accepted (rinit base) es) /\ Forall (fun o => o <> OutAssert) (snd (rrun (rinit base) es)).
Proof.
  intros base N es Hb HN Hes. split.
  - exact (accepted_nodup base N Hb HN es (rinit base) (inv_rinit base N Hb HN) Hes).
  - exact (no_assert base N Hb HN es (rinit base) (inv_rinit base N Hb HN) Hes).
Qed.
Print Assumptions C01_no_duplicate_accept.

(* 4. Values and types survive: str/bytes, empty or not, map to four distinct PPIDs
   (distinct from DCEP) and back; the user data handed to SCTP is never empty. *)
Theorem C01_app_roundtrip : forall v,
  (let '(pp, d) := encode_app v in decode_app pp d = Some v) /\ snd (encode_app v) <> [] /\
  NoDup [WEBRTC_DCEP; WEBRTC_STRING; WEBRTC_BINARY; WEBRTC_STRING_EMPTY; WEBRTC_BINARY_EMPTY].
Proof. intros v. exact (conj (app_roundtrip v) (conj (app_encode_nonempty v) ppids_distinct)). Qed.
Print Assumptions C01_app_roundtrip.

(* 5. Ordered, exactly-once delivery.  The application sends ANY list of messages (any
   sizes, streams, ordered or not, any ppid) from ANY initial TSN (wrap included); the
   network hands the receiver ANY list of DATA chunks inside the TSN window in which the
   chunks of stream st are chunks of st's ordered messages -- every order, loss and
   duplication pattern.  Then the messages delivered on stream st are EXACTLY the first n
   ordered messages sent on st (stream, ppid, data), in sending order, each once.
   `swin` is the 16-bit stream-sequence window: every chunk arrives while fewer than
   2^15 messages of its stream separate it from the delivery point; theorem 6 shows it
   holds outright for a stream that carries fewer than 2^15 ordered messages.  (Beyond
   that window SCTP's 16-bit SSN comparison is inherently ambiguous, RFC 4960 6.5.) *)
Theorem C01_ordered_exactly_once : forall base N t0 msgs st es,
  r32 base -> 0 <= N < 2147483648 -> r32 t0 ->
  off base t0 + Z.of_nat (total_frags msgs) <= N ->
  Forall (fun m => o_data m <> []) msgs ->
  let M := sel st (mkS t0 []) msgs in
  Forall (data_ev base N) es ->
  (forall c, In (EvData c) es -> sid c = st -> In c (concat M)) ->
  swin M [] 0 0 (filter (on_stream st) (accepted_chunks (rinit base) es)) ->
  exists n, msgs_on st (rinit base) es = firstn n (map triple (filter (selected st) msgs)).
Proof. exact ordered_exactly_once. Qed.
Print Assumptions C01_ordered_exactly_once.

(* 6. The stream-sequence window condition of theorem 5 is met by every arrival list when
   the stream carries at most 2^15 ordered messages. *)
Theorem C01_window_small : forall base N t0 msgs st,
  r32 base -> 0 <= N < 2147483648 -> r32 t0 ->
  off base t0 + Z.of_nat (total_frags msgs) <= N ->
  Forall (fun m => o_data m <> []) msgs ->
  let M := sel st (mkS t0 []) msgs in
  Z.of_nat (length M) <= 32768 ->
  forall cs Q seq k, swin M Q seq k cs.
Proof. exact window_small. Qed.
Print Assumptions C01_window_small.

(* 7. At most once, ordered AND unordered channels.  For ANY message list, ANY initial TSN and
   ANY list of DATA arrivals inside the TSN window in which the chunks of stream st are sent
   chunks (every order, loss and duplication pattern), the messages delivered on st are the
   messages of a DUPLICATE-FREE list D of sent fragment lists: every delivery is one sent
   message, reassembled from exactly its fragments (msgf), and no sent message is delivered
   twice (distinct sends have distinct fragment lists).  For unordered channels this is the
   property's "duplicate-free sub-multiset of the sends"; for ordered ones theorem 5 adds
   the order.  (Proof: every chunk entering a reassembly queue is afterwards retained or
   consumed by exactly one delivered run -- a counting invariant of pop_messages in every
   mode -- and the transport admits a TSN at most once, theorem 3.) *)
Theorem C01_at_most_once : forall base N t0 msgs st es,
  r32 base -> 0 <= N < 2147483648 -> in32 t0 ->
  Forall (fun m => o_data m <> []) msgs -> Z.of_nat (total_frags msgs) <= SCTP_TSN_MODULO ->
  Forall (data_ev base N) es ->
  (forall c, In (EvData c) es -> sid c = st -> In c (concat (send_msgs (mkS t0 []) msgs))) ->
  exists D, msgs_on st (rinit base) es = map msgf D /\ NoDup D /\
            Forall (fun f => In f (send_msgs (mkS t0 []) msgs)) D.
Proof. exact at_most_once. Qed.
Print Assumptions C01_at_most_once.

(* 8. At most once, all streams at once, FORWARD-TSN included.  For ANY message list and ANY event
   list inside the TSN window -- DATA chunks drawn from the sent ones in any order with any
   repetitions and omissions, interleaved with ARBITRARY FORWARD-TSN chunks -- the messages
   delivered step by step are the messages of chunk runs Ds such that no run occurs twice in the
   whole session and every run is the fragment list of a sent message: every delivery, on every
   stream, is one sent message and no sent message is delivered twice.  (Chunk accounting of the
   whole receiver: an accepted chunk is afterwards queued, pruned, or in exactly one delivery;
   a TSN is accepted at most once also across FORWARD-TSN.) *)
Theorem C01_at_most_once_all : forall base N t0 msgs es,
  r32 base -> 0 <= N < 2147483648 -> in32 t0 ->
  Forall (fun m => o_data m <> []) msgs -> Z.of_nat (total_frags msgs) <= SCTP_TSN_MODULO ->
  Forall (ev_in base N) es ->
  (forall c, In (EvData c) es -> In c (concat (send_msgs (mkS t0 []) msgs))) ->
  exists Ds : list (list (list chunk)),
    map out_msgs (snd (rrun (rinit base) es)) = map (map msgf) Ds /\
    NoDup (concat Ds) /\ Forall (fun f => In f (send_msgs (mkS t0 []) msgs)) (concat Ds).
Proof. intros base N t0 msgs es Hb HN. exact (at_most_once_all base N Hb HN t0 msgs es). Qed.
Print Assumptions C01_at_most_once_all.

(* 9. COMPLETE delivery: nothing that has arrived stays behind.  Same setting as theorem 5 (any
   messages, any initial TSN, any arrival list with every order, loss, duplication and
   retransmission pattern).  If every chunk of the ordered messages of stream st is among the
   chunks the receiver ACCEPTED (it arrived at least once while inside the receive window), then
   the messages delivered on st are exactly ALL ordered messages sent on st - in sending order,
   each once.  (The pop loop stops only where the next expected message is incomplete, and every
   chunk that entered the reassembly queue is either still there or part of a delivered message.)
   With C02_never_wedged - the sender keeps (re)transmitting until everything is acknowledged -
   this is the receiver's half of "once the network heals, everything sent is delivered". *)
Theorem C01_complete_delivery : forall base N t0 msgs st es,
  r32 base -> 0 <= N < 2147483648 -> r32 t0 ->
  off base t0 + Z.of_nat (total_frags msgs) <= N ->
  Forall (fun m => o_data m <> []) msgs ->
  let M := sel st (mkS t0 []) msgs in
  Forall (data_ev base N) es ->
  (forall c, In (EvData c) es -> sid c = st -> In c (concat M)) ->
  swin M [] 0 0 (filter (on_stream st) (accepted_chunks (rinit base) es)) ->
  (forall c, In c (concat M) -> In c (accepted_chunks (rinit base) es)) ->
  msgs_on st (rinit base) es = map triple (filter (selected st) msgs).
Proof. exact ordered_complete_delivery. Qed.
Print Assumptions C01_complete_delivery.

(* Still PARTIAL: the two-endpoint statement "every message IS eventually delivered once the
   network heals" composes theorem 9 with the sender's liveness (C02_never_wedged: no reachable
   sender state is wedged; the ideal peer's SACK is the receiver model's) and with the network
   actually delivering the retransmissions; that composition over two endpoints and real timers
   is observed by the scenario oracle, not mechanised. *)

(* non-vacuity: a 3-fragment message near the TSN wrap, delivered from a shuffled,
   duplicated arrival list *)
Example C01_example :
  let m := mkOut 1 true 53 (repeat 7 2500) in
  let cs := snd (send_msg (mkS 4294967295 []) m) in
  map tsn cs = [4294967295; 0; 1] /\
  exists c0 c1 c2, cs = [c0; c1; c2] /\
  flat_map out_msgs (snd (rrun (rinit 4294967294) (map EvData [c2; c0; c2; c1; c0]))) = [(1, 53, repeat 7 2500)].
Proof.
  cbv zeta. split; [reflexivity|]. eexists _, _, _. split; [reflexivity|]. vm_compute. reflexivity.
Qed.

(* non-vacuity of theorem 5: three ordered messages on stream 1 (the second has two
   fragments) interleaved with a message on stream 2, TSNs wrapping; the chunks arrive
   reversed with duplicates: all three are delivered in sending order; when the first
   fragment of the second message is lost, exactly the prefix [first message] comes out *)
Example C01_ordered_example :
  let msgs := [mkOut 1 true 53 [1; 2]; mkOut 2 true 53 [7]; mkOut 1 true 53 (repeat 7 1201); mkOut 1 true 51 [9]] in
  let cs := concat (send_msgs (mkS 4294967295 []) msgs) in
  map tsn cs = [4294967295; 0; 1; 2; 3] /\
  msgs_on 1 (rinit 4294967294) (map EvData (rev cs ++ cs)) = [(1, 53, [1; 2]); (1, 53, repeat 7 1201); (1, 51, [9])] /\
  msgs_on 1 (rinit 4294967294) (map EvData (rev (skipn 3 cs) ++ firstn 2 cs)) = [(1, 53, [1; 2])].
Proof. vm_compute. repeat split; reflexivity. Qed.

(* non-vacuity of theorem 9 (same messages as above): every chunk arrives - the last ones first, some
   twice - and all three ordered messages of stream 1 come out; the accepted chunks are all five *)
Example C01_complete_example :
  let msgs := [mkOut 1 true 53 [1; 2]; mkOut 2 true 53 [7]; mkOut 1 true 53 (repeat 7 1201); mkOut 1 true 51 [9]] in
  let cs := concat (send_msgs (mkS 4294967295 []) msgs) in
  let es := map EvData (rev cs ++ skipn 2 cs) in
  map tsn (accepted_chunks (rinit 4294967294) es) = [3; 2; 1; 0; 4294967295] /\
  msgs_on 1 (rinit 4294967294) es = map triple (filter (selected 1) msgs).
Proof. vm_compute. split; reflexivity. Qed.

(* non-vacuity of theorem 7: an unordered two-fragment message and an unordered one-fragment
   message, each arriving twice and out of order, are delivered once each *)
Example C01_unordered_example :
  let msgs := [mkOut 3 false 53 (repeat 7 1201); mkOut 3 false 51 [9]] in
  let cs := concat (send_msgs (mkS 5 []) msgs) in
  msgs_on 3 (rinit 4) (map EvData (rev cs ++ cs ++ rev cs)) = [(3, 51, [9]); (3, 53, repeat 7 1201)].
Proof. vm_compute. reflexivity. Qed.

