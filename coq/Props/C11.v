(* C11 -- video frames reach the decoder unspliced; lost packets are recovered by NACK / RTX.
   Property theorems only.  Proofs: Proof/RtpSendP.v (sender: numbering, history, _retransmit),
   Proof/RtpRecvNackP.v (NackGenerator), Proof/RtpRecvJbP.v (frames on top of the C10 window model),
   Proof/RtpRecvP.v (video path of _handle_rtp_packet), Proof/RtpLinkP.v, Proof/RtpEndP.v.
   Reused: Model/Rtp.v + C07 (wrap_rtx / unwrap_rtx), Model/H264.v, Model/Vp8.v + C16 (depayload),
   Model/Jitter.v + C10 (jitter buffer), Gen/Utils.v + Proof/SerialP.v (serial arithmetic),
   Gen/RtpConst.v (RTP_HISTORY_SIZE).

   Vocabulary
     in16 x                0 <= x < 65536
     behind m x            (m - x) mod 65536, how far x is behind m
     in_window m x         1 <= behind m x <= RTP_HISTORY_SIZE
     skipped m s x         x lies strictly between the old maximum m and the arriving number s
     NInv g                invariant of the NackGenerator: every missing number is 16-bit and in_window
     recent n log          the last n packets of log, newest first
     from_sender           an arrival is a sent media packet or the RTX wrapping of one
     jframes k sframes     the sender's frames as the jitter buffer sees them: (sequence number,
                           timestamp, depayload(payload)) per packet
     part_data / tail_data / whole_data d
                           d is the concatenation of the depayloaded payloads of a non-empty run of
                           consecutive packets / of a suffix / of all packets of ONE sent frame
     pscan jf clean outs   scanning the receiver's outputs in order: a frame handed to the decoder is
                           whole_data when `clean`, tail_data otherwise; `clean` is set by a frame
                           release and cleared by a PLI (it starts cleared) *)
From Coq Require Import ZArith List Bool Lia.
From AV Require Import Lib.Bytes Lib.RtpX Gen.Utils Gen.RtpConst Model.Rtp Proof.SerialP.
From AV Require Lib.CodecX Model.Jitter Model.RtpSend Model.RtpRecv.
From AV Require Proof.RtpSendP Proof.RtpRecvNackP Proof.RtpRecvJbP Proof.RtpRecvP Proof.RtpLinkP Proof.RtpEndP.
From AV Require Proof.JitterP Proof.JitterOrderP Proof.RtpOrderP Proof.Vp8P Proof.H264PStap Proof.RtpBytesP Model.Vp8 Model.H264.
Import ListNotations.
Local Open Scope Z_scope.

Module S := AV.Model.RtpSend. Module SP := AV.Proof.RtpSendP.
Module V := AV.Model.RtpRecv. Module NP := AV.Proof.RtpRecvNackP. Module VP := AV.Proof.RtpRecvP.
Module LP := AV.Proof.RtpLinkP.

(* ---------------------------------------------------------------- sender *)
(* For EVERY history of frames and NACKs, from ANY 16-bit sequence origin (also just below the
   wrap): the run never raises; afterwards `_retransmit(x)` finds packet p -- for every integer x --
   iff p is among the last 128 media packets sent and carries sequence number x; it then sends p
   verbatim, or, when RTX is negotiated, wrap_rtx(p) with the next RTX sequence number on the RTX
   SSRC, and unwrap_rtx at the receiver gives back exactly p. *)
Theorem C11_history : forall s0 ops,
  in16 (S.s_seq s0) -> S.s_hist s0 = [] ->
  exists s outs,
    S.run s0 ops = Ok (s, outs) /\
    forall x,
      (forall p, S.lookup s x = Some p <-> In p (SP.recent 128 (S.media outs)) /\ sequence_number p = x) /\
      match S.lookup s x with
      | None => S.retransmit s x = Ok (s, [])
      | Some p =>
          match S.s_rtx_pt s0 with
          | None => S.retransmit s x = Ok (s, [p])
          | Some pt =>
              exists r, wrap_rtx p pt (S.s_rtx_seq s) (S.s_rtx_ssrc s0) = Ok r /\
                        S.retransmit s x = Ok (S.set_rtx_seq s (uint16_add (S.s_rtx_seq s) 1), [r]) /\
                        payload_type r = pt /\ sequence_number r = S.s_rtx_seq s /\ ssrc r = S.s_rtx_ssrc s0 /\
                        unwrap_rtx r (payload_type p) (ssrc p) = Ok p
          end
      end.
Proof. exact SP.history_spec. Qed.
Print Assumptions C11_history.

(* What goes on the wire: sequence numbers consecutive modulo 2^16 from the origin, across frames;
   every frame has ONE timestamp, the sender's payload type and SSRC, no padding, and the marker
   bit exactly on its last packet. *)
Theorem C11_sender_stream : forall s0 ops s outs,
  in16 (S.s_seq s0) -> S.s_hist s0 = [] -> S.run s0 ops = Ok (s, outs) ->
  SP.numbered (S.s_seq s0) (S.media outs) /\ Forall (SP.one_frame s0) (SP.sent_frames outs) /\
  S.media outs = concat (SP.sent_frames outs) /\ Forall (fun l => l <> []) (SP.sent_frames outs).
Proof. exact SP.stream_spec. Qed.
Print Assumptions C11_sender_stream.

(* ---------------------------------------------------------------- NACK generator *)
(* After ANY arrival list of 16-bit sequence numbers: the while loop always ends, every missing
   number lies in the RTP_HISTORY_SIZE numbers behind max_seq, and sorted(missing) -- what a NACK
   lists -- is strictly increasing and has at most 128 entries. *)
Theorem C11_nack_bounded : forall l, Forall in16 l ->
  exists g, NP.nack_run V.nack_init l = Some g /\
    match V.max_seq g with
    | Some m => in16 m /\ forall x, In x (V.missing g) -> in16 x /\ NP.in_window m x
    | None => V.missing g = []
    end /\
    (length (V.sorted_set (V.missing g)) <= 128)%nat /\
    NP.increasing (V.sorted_set (V.missing g)) /\
    (forall x, In x (V.sorted_set (V.missing g)) <-> In x (V.missing g)).
Proof. exact NP.nack_bounded. Qed.
Print Assumptions C11_nack_bounded.

(* One add(), exactly: max_seq becomes the serial maximum; a number is missing afterwards iff it is
   in the window behind the new maximum, is not the arriving number, and was missing before or was
   skipped by this arrival; add() returns True iff some number was skipped. *)
Theorem C11_nack_complete : forall g s,
  NP.NInv g -> in16 s ->
  exists g' missed,
    V.nack_add g s = Some (g', missed) /\ NP.NInv g' /\
    match V.max_seq g with
    | None => V.max_seq g' = Some s /\ V.missing g' = [] /\ missed = false
    | Some m =>
        let m' := if uint16_gt s m then s else m in
        V.max_seq g' = Some m' /\
        (forall x, In x (V.missing g') <->
                   NP.in_window m' x /\ x <> s /\ in16 x /\
                   (In x (V.missing g) \/ (uint16_gt s m = true /\ NP.skipped m s x))) /\
        (missed = true <-> uint16_gt s m = true /\ 2 <= NP.behind s m)
    end.
Proof. exact NP.nack_add_spec. Qed.
Print Assumptions C11_nack_complete.

(* In the receiver: every NACK put on the wire during ANY run lists at most 128 strictly increasing
   numbers ... *)
Theorem C11_nack_on_wire : forall c l s outs,
  Forall VP.wire_ok l -> V.run c V.init_video l = Ok (s, outs) -> Forall VP.nack_fine outs.
Proof. intros c l s outs HW ER. exact (proj2 (VP.run_nacks c l V.init_video s outs NP.NInv_init HW ER)). Qed.
Print Assumptions C11_nack_on_wire.

(* ... and one is sent, listing the whole missing set, whenever the missing set grows. *)
Theorem C11_nack_emitted : forall c s a s' o q cpt k me,
  NP.NInv (V.nack s) -> VP.wire_ok a -> V.handle_rtp c s a = Ok (s', o) -> VP.media_of c a = Some (q, cpt, k) ->
  V.rtcp_ssrc c = Some me ->
  (exists x, In x (V.missing (V.nack s')) /\ ~ In x (V.missing (V.nack s))) ->
  V.o_nack o = Some (me, ssrc q, V.sorted_set (V.missing (V.nack s'))).
Proof. exact VP.nack_emitted. Qed.
Print Assumptions C11_nack_emitted.

(* ---------------------------------------------------------------- frames at the decoder *)
(* The receive path is the composition of the component models: the NACK generator sees the
   sequence numbers, the jitter buffer the depayloaded packets, of exactly the arrivals that pass
   the codec / RTX guards, in order. *)
Theorem C11_pipeline : forall c l s s' outs,
  V.run c s l = Ok (s', outs) ->
  NP.nack_run (V.nack s) (flat_map (VP.nack_input c) l) = Some (V.nack s') /\
  exists jouts,
    Jitter.run (V.jbuf s) (flat_map (VP.jb_input c) l) = Jitter.Ok (V.jbuf s', jouts) /\
    VP.aligned (VP.is_some (V.rtcp_ssrc c)) outs jouts.
Proof. intros c l s s' outs. exact (VP.run_factor c l s s' outs). Qed.
Print Assumptions C11_pipeline.

(* NEVER A SPLICE.  The sender's frames sframes: consecutive sequence numbers from `base`, one
   timestamp per frame, different frames different timestamps, fewer than 65536 packets per frame,
   payloads the depayloader accepts.  The network delivers an ARBITRARY list of sent packets and RTX
   wrappings of sent packets (any loss, duplication, reordering, any length).  Then every frame
   handed to the decoder is the depayload-concatenation of a non-empty run of consecutive packets of
   ONE sent frame. *)
Theorem C11_frame_identity : forall c mpt mssrc k rpt rssrc sframes base,
  LP.link_ok c mpt mssrc k rpt rssrc -> LP.stream_ok mpt mssrc sframes base ->
  LP.depayloadable k sframes -> LP.ts_apart sframes ->
  forall arrivals s outs,
  Forall (fun g => Z.of_nat (length g) < 65536) sframes ->
  Forall (LP.from_sender rpt rssrc (concat sframes)) arrivals ->
  V.run c V.init_video arrivals = Ok (s, outs) ->
  Forall (fun o => match V.o_frame o with
                   | Some (_, _, d) => VP.part_data (LP.jframes k sframes) d
                   | None => True
                   end) outs.
Proof. exact LP.frames_unspliced. Qed.
Print Assumptions C11_frame_identity.

(* WHOLE FRAMES.  If moreover the stream has fewer than 65536 packets (sequence numbers are not
   reused) and the receiver has an RTCP SSRC (so a raised PLI flag shows as a PLI packet): every
   frame handed to the decoder runs to the END of its sent frame, and it is the WHOLE sent frame
   unless it is the first frame after the start or after a PLI. *)
Theorem C11_frame_whole : forall c mpt mssrc k rpt rssrc sframes base,
  LP.link_ok c mpt mssrc k rpt rssrc -> LP.stream_ok mpt mssrc sframes base ->
  LP.depayloadable k sframes -> LP.ts_apart sframes ->
  forall arrivals s outs,
  Z.of_nat (length (concat sframes)) < 65536 -> V.rtcp_ssrc c <> None ->
  Forall (LP.from_sender rpt rssrc (concat sframes)) arrivals ->
  V.run c V.init_video arrivals = Ok (s, outs) ->
  VP.pscan (LP.jframes k sframes) false outs.
Proof. exact LP.frames_whole. Qed.
Print Assumptions C11_frame_whole.

(* The stream hypotheses are what the sender model produces, for every history of frames and NACKs. *)
Theorem C11_sender_meets_hypotheses : forall s0 ops s outs,
  in16 (S.s_seq s0) -> S.s_hist s0 = [] -> S.run s0 ops = Ok (s, outs) ->
  LP.stream_ok (S.s_pt s0) (S.s_ssrc s0) (SP.sent_frames outs) (S.s_seq s0) /\
  concat (SP.sent_frames outs) = S.media outs.
Proof. exact RtpEndP.sender_stream_ok. Qed.
Print Assumptions C11_sender_meets_hypotheses.

(* FRAME ORDER.  For every arrival list handled by a fresh video receiver whose media packets
   (those passing the codec and RTX guards) never arrive MAX_MISORDER or more positions late, the
   frames handed to the decoder, in the order they are handed over, occupy disjoint, strictly
   increasing intervals of unwrapped stream positions counted from the first media packet (C10's
   ordering theorem lifted through the receive pipeline): frames reach the decoder in stream
   order and no stream position is decoded twice. *)
Module OP := AV.Proof.RtpOrderP.
Theorem C11_frame_order : forall c l s' outs p jl,
  V.run c V.init_video l = Ok (s', outs) ->
  flat_map (VP.jb_input c) l = p :: jl ->
  Forall AV.Proof.JitterP.seq16 (p :: jl) -> AV.Proof.JitterOrderP.never_late V.VIDEO_CAPACITY 0 true (p :: jl) ->
  exists fs, AV.Proof.JitterOrderP.ordered_from (AV.Model.Jitter.pseq p) 0 fs /\
             OP.decoder_frames outs = map AV.Model.Jitter.fdata fs.
Proof. exact OP.decoder_frames_ordered. Qed.
Print Assumptions C11_frame_order.

(* BYTE IDENTITY (C11 composed with C16).  When every sent frame's RTP payloads are what the
   real packetisers produce for an encoded frame -- Vp8.packetize buffer pid, or H264.packetize
   of valid NAL units -- every WHOLE frame handed to the decoder (C11_frame_whole says which
   ones are whole) is, byte for byte, that encoded VP8 buffer, or the Annex-B stream
   START_CODE ++ nal ... of those NAL units. *)
Module BP := AV.Proof.RtpBytesP.
Theorem C11_vp8_bytes : forall (sframes : list (list rtp)) (bufs : list (bytes * Z)) d,
  Forall2 (fun g bp => 0 <= snd bp < 32768 /\ AV.Model.Vp8.packetize (fst bp) (snd bp) = AV.Lib.CodecX.Ok (map payload g)) sframes bufs ->
  VP.whole_data (LP.jframes V.KVp8 sframes) d -> exists bp, In bp bufs /\ d = fst bp.
Proof. exact BP.vp8_whole_is_encoder_output. Qed.
Print Assumptions C11_vp8_bytes.

Theorem C11_h264_bytes : forall (sframes : list (list rtp)) (nalss : list (list bytes)) d,
  Forall2 (fun g nals => Forall AV.Proof.H264PStap.valid_nal nals /\
                         AV.Model.H264.packetize nals = AV.Lib.CodecX.Ok (map payload g)) sframes nalss ->
  VP.whole_data (LP.jframes V.KH264 sframes) d ->
  exists nals, In nals nalss /\ d = concat (map (fun n => AV.Model.H264.START_CODE ++ n) nals).
Proof. exact BP.h264_whole_is_encoder_output. Qed.
Print Assumptions C11_h264_bytes.

(* ---------------------------------------------------------------- non-vacuity *)
Definition ex_sender : S.sender := S.mkSender 100 7 8 (Some 101) None 65535 4294967000 32000 [].
Definition ex_ops : list S.op :=
  [S.Frame (S.mkEframe 500 None [([1; 2], 0); ([3], 0)]); S.Frame (S.mkEframe 3500 None [([4], 0)]);
   S.Nack [0; 65535; 9]].

(* frame 1 = seq 65535, 0 (timestamp wraps to 204); frame 2 = seq 1; NACK(0, 65535, 9) resends 0 and
   65535 as RTX 32000, 32001 and nothing for 9 *)
Example C11_example_sender :
  exists s outs, S.run ex_sender ex_ops = Ok (s, outs) /\
    map sequence_number (S.media outs) = [65535; 0; 1] /\ map timestamp (S.media outs) = [204; 204; 3204] /\
    map marker (S.media outs) = [0; 1; 1] /\
    match outs with
    | [_; _; S.Resent l] => map sequence_number l = [32000; 32001] /\ map payload l = [[0; 0; 3]; [255; 255; 1; 2]]
    | _ => False
    end.
Proof. eexists; eexists. split; [vm_compute; reflexivity|]. vm_compute. auto. Qed.

(* receiver: VP8-less "raw" codec 100, RTX 101/apt 100; packets 65535 (frame A), 1 (frame B, its first
   packet 0 lost), 2 (frame C) arrive: NACK [0]; then 0 arrives as RTX: frame A (whole), then B. *)
Definition ex_cfg : V.config := V.mkConfig [(100, V.KOther); (101, V.KRtx (Some 100))] [(8, 7)] (Some 9).
Definition ex_pkt (m sq ts : Z) (pl : bytes) : rtp := mkRtp m 100 sq ts 7 [] hext_empty pl 0.
Definition ex_arrivals : list rtp :=
  [ex_pkt 1 65535 10 [1]; ex_pkt 1 1 20 [3]; ex_pkt 1 2 30 [4];
   mkRtp 0 101 32000 20 8 [] hext_empty [0; 0; 2] 0; ex_pkt 1 3 40 [5]].

Example C11_example_receiver :
  exists s outs, V.run ex_cfg V.init_video ex_arrivals = Ok (s, outs) /\
    map V.o_nack outs = [None; Some (9, 7, [0]); None; None; None] /\
    map V.o_frame outs = [None; None; None; Some (100, 0, [1]); Some (100, 10, [2; 3])].
Proof. eexists; eexists. split; [vm_compute; reflexivity|]. vm_compute. auto. Qed.

Example C11_example_link :
  LP.link_ok ex_cfg 100 7 V.KOther (Some 101) 8 /\ VP.wire_ok (ex_pkt 1 1 20 [3]).
Proof.
  split.
  - split; [reflexivity|]. split; [intros apt; discriminate|]. split; reflexivity.
  - split; [cbv; intuition congruence|]. repeat constructor; cbv; intuition congruence.
Qed.
