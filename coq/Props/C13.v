(* C13 -- data channel lifecycle: faithful open, forward-only states.
   Property theorems only; proofs in Proof/ChanDcepP.v and Proof/ChanP.v. *)
From Coq Require Import ZArith List Bool.
From AV Require Import Lib.Bytes Gen.SctpConst Model.Chan Proof.ChanDcepP Proof.ChanP.
Import ListNotations.
Local Open Scope Z_scope.

(* 1. The DCEP OPEN message built for ANY channel parameters -- any label and
   protocol (UTF-8 byte strings shorter than 65536 bytes, i.e. any Unicode text),
   ordered or not, reliable / maxRetransmits / maxPacketLifeTime -- is an OPEN
   message of at least 12 bytes that parses back to exactly these parameters. *)
Theorem C13_open_roundtrip : forall c, wf_chan c ->
  hd 0 (dcep_open c) = DATA_CHANNEL_OPEN /\ 12 <= len (dcep_open c) /\
  dcep_parse_open (dcep_open c) =
    Some (mkOpen (ch_ordered c) (ch_maxrt c) (ch_maxlt c) (ch_label c) (ch_proto c)).
Proof. exact dcep_open_roundtrip. Qed.
Print Assumptions C13_open_roundtrip.

(* 2. readyState only moves forward.  For EVERY input list -- application calls
   (create / send / close / threshold), deferred flush and reconfig tasks at any
   point, association established / closed / shut down, received DCEP and user
   messages (well-formed or not), stream reset requests and responses -- and for
   every channel h, the rank connecting(0) < open(1) < closing(2) < closed(3) of h
   after any prefix is <= its rank after any longer prefix (a channel that does
   not exist yet counts as rank 0). *)
Theorem C13_forward_only : forall role seq is1 is2 h,
  let s1 := fst (run (init role seq) is1) in
  rk s1 h <= rk (fst (run s1 is2)) h.
Proof.
  intros role seq is1 is2 h s1.
  destruct (run_good is1 (init role seq) (wf_init role seq)) as [W1 _].
  destruct (run_good is2 s1 W1) as [_ [_ H]]. exact (proj1 (H h)).
Qed.
Print Assumptions C13_forward_only.

(* 3. At most one `open` and one `close` event per channel over the whole run; an
   `open` event is emitted only by a step that takes the channel out of
   `connecting`, a `close` event only by the step that takes it to `closed`. *)
Theorem C13_single_open_close : forall role seq is h,
  let evs := concat (snd (run (init role seq) is)) in
  (opens h evs <= 1)%nat /\ (closes h evs <= 1)%nat /\
  ((1 <= closes h evs)%nat -> rk (fst (run (init role seq) is)) h = 3).
Proof.
  intros role seq is h evs.
  destruct (run_good is (init role seq) (wf_init role seq)) as [_ [_ H]].
  destruct (H h) as (_ & A & _ & B & C). split; [exact A|]. split; [exact B|].
  intros Hc. exact (proj2 (C Hc)).
Qed.
Print Assumptions C13_single_open_close.

Theorem C13_step_events : forall s i h, wf s ->
  let evs := snd (step s i) in
  ((1 <= opens h evs)%nat -> rk s h = 0 /\ 1 <= rk (fst (step s i)) h) /\
  ((1 <= closes h evs)%nat -> rk s h < 3 /\ rk (fst (step s i)) h = 3).
Proof.
  intros s i h W evs. destruct (step_good s i W) as [_ [_ H]].
  destruct (H h) as (_ & _ & A & _ & B). exact (conj A B).
Qed.
Print Assumptions C13_step_events.

(* PARTIAL (not yet theorems; observed by the correspondence and the two-endpoint
   oracle): exact bufferedAmount accounting, id parity / freshness, "association end
   closes every channel", and the close protocol across two endpoints (the latter is
   refuted on the real code by known findings K4, K9, K10). *)

(* non-vacuity: create, establish, flush (id 1 assigned, OPEN sent), ACK received,
   close, reset response: the channel walks connecting -> open -> closing -> closed *)
Example C13_example :
  let ins := [ICreate false None true None None [104; 105] []; IEstablished; IFlush [false; false];
              IRecv 1 WEBRTC_DCEP [DATA_CHANNEL_ACK] true []; IClose 0; ITransmitReconfig; IResetResponse 100] in
  let '(s, evs) := run (init 1 100) ins in
  map (fun e => (opens 0 e, closes 0 e)) evs = [(0, 0); (0, 0); (0, 0); (1, 0); (0, 0); (0, 0); (0, 1)]%nat /\
  rk s 0 = 3 /\ table s = [].
Proof. vm_compute. repeat split. Qed.
