(* C13 -- data channel lifecycle: faithful open, forward-only states.
   Property theorems only; proofs in Proof/ChanDcepP.v, Proof/ChanP.v and Proof/ChanBufP.v. *)
From Coq Require Import ZArith List Bool.
From AV Require Import Lib.Bytes Gen.SctpConst Model.Chan Proof.ChanDcepP Proof.ChanP Proof.ChanBufP Proof.ChanOpenP Proof.ChanCloseP Proof.ChanNegP Proof.ChanIdsP Proof.ChanPurgeP.
Import ListNotations.
Local Open Scope Z_scope.

(* 1. The DCEP OPEN message built for ANY channel parameters -- any label and
   protocol (UTF-8 byte strings shorter than 65536 bytes, i.e. any Unicode text),
   ordered or not, reliable / maxRetransmits / maxPacketLifeTime -- is an OPEN
   message of at least 12 bytes that parses back to exactly these parameters. *)
Theorem C13_open_roundtrip : forall c, wf_chan c ->
  hd 0 (dcep_open c) = DATA_CHANNEL_OPEN /\ 12 <= len (dcep_open c) /\
  dcep_parse_open (dcep_open c) =
    Some (mkOpen (ch_ordered c) (ch_maxrt c) (ch_maxlt c) (ch_label c) (ch_proto c)).
Proof. exact dcep_open_roundtrip. Qed.
Print Assumptions C13_open_roundtrip.

(* 2. readyState only moves forward.  For EVERY input list -- application calls
   (create / send / close / threshold), deferred flush and reconfig tasks at any
   point, association established / closed / shut down, received DCEP and user
   messages (well-formed or not), stream reset requests and responses -- and for
   every channel h, the rank connecting(0) < open(1) < closing(2) < closed(3) of h
   after any prefix is <= its rank after any longer prefix (a channel that does
   not exist yet counts as rank 0). *)
Theorem C13_forward_only : forall role seq is1 is2 h,
  let s1 := fst (run (init role seq) is1) in
  rk s1 h <= rk (fst (run s1 is2)) h.
Proof.
  intros role seq is1 is2 h s1.
  destruct (run_good is1 (init role seq) (wf_init role seq)) as [W1 _].
  destruct (run_good is2 s1 W1) as [_ [_ H]]. exact (proj1 (H h)).
Qed.
Print Assumptions C13_forward_only.

(* 3. At most one `open` and one `close` event per channel over the whole run; an
   `open` event is emitted only by a step that takes the channel out of
   `connecting`, a `close` event only by the step that takes it to `closed`. *)
Theorem C13_single_open_close : forall role seq is h,
  let evs := concat (snd (run (init role seq) is)) in
  (opens h evs <= 1)%nat /\ (closes h evs <= 1)%nat /\
  ((1 <= closes h evs)%nat -> rk (fst (run (init role seq) is)) h = 3).
Proof.
  intros role seq is h evs.
  destruct (run_good is (init role seq) (wf_init role seq)) as [_ [_ H]].
  destruct (H h) as (_ & A & _ & B & C). split; [exact A|]. split; [exact B|].
  intros Hc. exact (proj2 (C Hc)).
Qed.
Print Assumptions C13_single_open_close.

Theorem C13_step_events : forall s i h, wf s ->
  let evs := snd (step s i) in
  ((1 <= opens h evs)%nat -> rk s h = 0 /\ 1 <= rk (fst (step s i)) h) /\
  ((1 <= closes h evs)%nat -> rk s h < 3 /\ rk (fst (step s i)) h = 3).
Proof.
  intros s i h W evs. destruct (step_good s i W) as [_ [_ H]].
  destruct (H h) as (_ & _ & A & _ & B). exact (conj A B).
Qed.
Print Assumptions C13_step_events.

(* 4. bufferedAmount.  For EVERY list of well-formed inputs (send() only uses the four
   user PPIDs, a negotiated channel has an id -- both enforced by RTCDataChannel) and
   every channel that is not closed: bufferedAmount equals the total size of the user
   messages of that channel accepted by send() and still in _data_channel_queue, i.e.
   not yet handed to the transport by _data_channel_flush (whatever the congestion
   oracle made the flush loop do); hence it is never negative and is zero whenever
   the queue is drained. *)
Theorem C13_buffered_amount : forall role seq is, Forall wf_input is ->
  let s := fst (run (init role seq) is) in
  forall h, (h < length (chans s))%nat -> ch_state (getc s h) <> Closed ->
    ch_buf (getc s h) = qsum (queue s) h /\ 0 <= ch_buf (getc s h) /\ (queue s = [] -> ch_buf (getc s h) = 0).
Proof. exact buffered_amount. Qed.
Print Assumptions C13_buffered_amount.

(* bufferedamountlow is emitted by _addBufferedAmount exactly on a downward crossing *)
Theorem C13_low_on_crossing : forall s h a,
  snd (add_buffered s h a) =
  if (ch_thr (getc s h) <? ch_buf (getc s h)) && (ch_buf (getc s h) + a <=? ch_thr (getc s h)) then [EvLow h] else [].
Proof. reflexivity. Qed.
Print Assumptions C13_low_on_crossing.

(* 5. When the association ends every channel closes -- registered or still waiting for
   a stream id, whatever happened before -- and nothing stays registered or queued. *)
Theorem C13_assoc_end_closes_all : forall role seq is, Forall wf_input is ->
  let s := fst (run (init role seq) (is ++ [IAssocClosed])) in
  (forall h, (h < length (chans s))%nat -> ch_state (getc s h) = Closed) /\ table s = [] /\ queue s = [].
Proof. exact assoc_end_closes_all. Qed.
Print Assumptions C13_assoc_end_closes_all.

(* 6. Ids.  The id chosen for a channel without one is not in use, has the parity of
   the endpoint's DTLS role and is not below it; at every moment of every run the
   live channels that have an id have pairwise distinct ids (so out-of-band
   negotiated channels and received OPENs can never alias a live channel), and
   closing never raises KeyError (EvRaise 3) on the registration table. *)
Theorem C13_auto_id_fresh : forall t i,
  let k := pick_id (S (length t)) t i in tget t k = None /\ (k - i) mod 2 = 0 /\ i <= k.
Proof. exact auto_id_fresh. Qed.
Print Assumptions C13_auto_id_fresh.

Theorem C13_live_ids_distinct : forall role seq is, Forall wf_input is ->
  let s := fst (run (init role seq) is) in
  forall h1 h2 i, (h1 < length (chans s))%nat -> (h2 < length (chans s))%nat ->
    ch_state (getc s h1) <> Closed -> ch_state (getc s h2) <> Closed ->
    ch_id (getc s h1) = Some i -> ch_id (getc s h2) = Some i -> h1 = h2.
Proof. exact live_ids_distinct. Qed.
Print Assumptions C13_live_ids_distinct.

(* 6b. ... and automatically chosen ids of the TWO sides never collide.  Two endpoints whose
   _data_channel_id have opposite parity (0 at the DTLS server, 1 at the DTLS client: roleA - roleB odd), each
   after ANY input history of its own: the id either would now choose for a channel that has none
   (the value flush_loop assigns) differs from the id the other would choose - each keeps its
   own parity for ever, because _data_channel_id never changes. *)
Theorem C13_two_sides_never_collide : forall roleA roleB seqA seqB isA isB,
  (roleA - roleB) mod 2 = 1 ->
  let sA := fst (run (init roleA seqA) isA) in
  let sB := fst (run (init roleB seqB) isB) in
  auto_pick sA <> auto_pick sB /\
  (auto_pick sA - roleA) mod 2 = 0 /\ (auto_pick sB - roleB) mod 2 = 0.
Proof. exact two_sides_never_collide. Qed.
Print Assumptions C13_two_sides_never_collide.

Theorem C13_never_keyerror : forall role seq is, Forall wf_input is ->
  Forall (fun evs => ~ In (EvRaise 3) evs) (snd (run (init role seq) is)).
Proof. exact never_keyerror. Qed.
Print Assumptions C13_never_keyerror.

(* 7. The receiving side of an open.  When the OPEN message built by theorem 1 for ANY channel
   parameters arrives on a stream that has no channel, in ANY state of the endpoint and under
   any congestion oracle: exactly one `datachannel` event is emitted, for a new channel that is
   open, registered under the opener's stream id, not negotiated, and has exactly the opener's
   ordering, maxRetransmits, maxPacketLifeTime, label and protocol.  An OPEN arriving on a
   stream that already has a channel (a duplicate, or a collision) is ignored altogether. *)
Theorem C13_open_creates_one_channel : forall s sidv c oracle, wf_chan c -> tget (table s) sidv = None ->
  let h := length (chans s) in
  let s' := fst (recv_dcep s sidv (dcep_open c) true oracle) in
  let evs := snd (recv_dcep s sidv (dcep_open c) true oracle) in
  filter is_dc evs = [EvDataChannel h] /\
  ch_id (getc s' h) = Some sidv /\ ch_state (getc s' h) = Open /\ ch_neg (getc s' h) = false /\
  ch_ordered (getc s' h) = ch_ordered c /\ ch_maxrt (getc s' h) = ch_maxrt c /\ ch_maxlt (getc s' h) = ch_maxlt c /\
  ch_label (getc s' h) = ch_label c /\ ch_proto (getc s' h) = ch_proto c /\
  tget (table s') sidv = Some h.
Proof. exact open_creates_one_channel. Qed.
Print Assumptions C13_open_creates_one_channel.

Theorem C13_repeated_open_ignored : forall s sidv h data ok oracle, tget (table s) sidv = Some h ->
  hd 0 data = DATA_CHANNEL_OPEN -> 12 <= len data -> recv_dcep s sidv data ok oracle = (s, []).
Proof. exact repeated_open_ignored. Qed.
Print Assumptions C13_repeated_open_ignored.

(* 8. close().  In ANY reachable-style state (cinv) of an established association with no stream
   reset pending: close() on an open channel that has stream id i makes it `closing` and schedules
   the RE-CONFIG task; the task sends an outgoing-stream reset request for exactly stream i;
   when the peer's response arrives the channel becomes `closed` with one `close` event, the id
   is unregistered, and a new channel may be created with id i at once. *)
Theorem C13_close_frees_id : forall s h i hs, cinv s -> (h < length (chans s))%nat ->
  ch_state (getc s h) = Open -> ch_id (getc s h) = Some i ->
  established s = true -> rq_request s = None -> rq_queue s = [] ->
  let s1 := fst (step s (IClose h hs)) in
  let s2 := fst (step s1 ITransmitReconfig) in
  let s3 := fst (step s2 (IResetResponse (rq_req_seq s))) in
  ch_state (getc s1 h) = Closing /\ snd (step s (IClose h hs)) = [EvSchedReconfig] /\
  snd (step s1 ITransmitReconfig) = [EvReconfigRequest (rq_req_seq s) [i]] /\
  ch_state (getc s3 h) = Closed /\ snd (step s2 (IResetResponse (rq_req_seq s))) = [EvClose h] /\
  tget (table s3) i = None /\
  (forall neg ordered maxrt maxlt label proto, ~ In (EvRaise 1) (snd (create s3 neg (Some i) ordered maxrt maxlt label proto))).
Proof. exact close_frees_id. Qed.
Print Assumptions C13_close_frees_id.

(* 8a. Nothing is left to be sent for a closed channel.  For EVERY input list: a message waiting
   in the data-channel queue (user data accepted by send(), a DCEP OPEN / ACK) belongs to a channel
   that is not `closed` - when a channel closes (its stream reset is answered, it is closed
   locally, the association ends) what it still had queued is dropped, and nothing is queued for
   it afterwards.  Hence _data_channel_flush never transmits on a stream whose reset has completed:
   the next channel using the id cannot receive a message of the previous one.  (Before the repair
   in /repo the code kept such messages and sent them after the reset.) *)
Theorem C13_closed_nothing_queued : forall role seq is h pp data,
  In (h, pp, data) (queue (fst (run (init role seq) is))) ->
  ch_state (getc (fst (run (init role seq) is)) h) <> Closed.
Proof. exact closed_nothing_queued. Qed.
Print Assumptions C13_closed_nothing_queued.

(* ... and at the moment the peer's answer to the reset of stream i arrives, everything still
   queued for the channel registered under i is dropped *)
Theorem C13_reset_answer_purges : forall s i h, tget (table s) i = Some h ->
  forall it, In it (queue (fst (chan_closed s i))) -> fst (fst it) <> h.
Proof. exact chan_closed_purges. Qed.
Print Assumptions C13_reset_answer_purges.

(* 8b. close() while this end's association is still being set up (COOKIE_WAIT / COOKIE_ECHOED;
   hs = true) on a channel the peer already knows (it has stream id i, e.g. it was opened by the
   peer's DATA_CHANNEL_OPEN): the channel is `closing`, stays registered, the reset of stream i is
   queued; becoming established schedules the RE-CONFIG task and the task requests the reset of
   exactly stream i - the peer is told, it is not left with a channel that never closes. *)
Theorem C13_close_during_handshake : forall s h i, (h < length (chans s))%nat ->
  rank (ch_state (getc s h)) <= 1 -> ch_id (getc s h) = Some i ->
  established s = false -> rq_request s = None -> rq_queue s = [] ->
  let s1 := fst (step s (IClose h true)) in
  let s2 := fst (step s1 IEstablished) in
  ch_state (getc s1 h) = Closing /\ table s1 = table s /\ rq_queue s1 = [i] /\
  In EvSchedReconfig (snd (step s1 IEstablished)) /\
  snd (step s2 ITransmitReconfig) = [EvReconfigRequest (rq_req_seq s) [i]].
Proof. exact close_during_handshake. Qed.
Print Assumptions C13_close_during_handshake.

(* 9. Out-of-band negotiated channels pair up by id at each endpoint.  Creating a negotiated
   channel with an unused id i registers it under i without queueing anything for the peer; it is
   open at once (one `open` event) when the association is established, otherwise it stays
   connecting and opens -- exactly one `open` event -- when the association becomes established;
   a second channel with id i is refused (ValueError).  Both sides doing this with the same i
   therefore end with an open channel registered under i on each side. *)
Theorem C13_negotiated_create : forall s i ordered maxrt maxlt label proto, tget (table s) i = None ->
  let h := length (chans s) in
  let s' := fst (create s true (Some i) ordered maxrt maxlt label proto) in
  let evs := snd (create s true (Some i) ordered maxrt maxlt label proto) in
  tget (table s') i = Some h /\ ch_id (getc s' h) = Some i /\ ch_neg (getc s' h) = true /\ queue s' = queue s /\
  (if established s then ch_state (getc s' h) = Open /\ evs = [EvOpen h]
   else ch_state (getc s' h) = Connecting /\ evs = []) /\
  (forall neg' o' r' l' lb' pr', snd (create s' neg' (Some i) o' r' l' lb' pr') = [EvRaise 1]).
Proof. exact create_negotiated. Qed.
Print Assumptions C13_negotiated_create.

Theorem C13_negotiated_opens_when_established : forall s h i, cinv s -> (h < length (chans s))%nat ->
  ch_neg (getc s h) = true -> ch_state (getc s h) = Connecting -> ch_id (getc s h) = Some i ->
  ch_state (getc (fst (set_established s)) h) = Open /\ opens h (snd (set_established s)) = 1%nat.
Proof. exact established_opens_negotiated. Qed.
Print Assumptions C13_negotiated_opens_when_established.

(* PARTIAL (not theorems; observed by the correspondence and the two-endpoint oracle): that
   the OPEN actually reaches the peer exactly once is C01's ordered exactly-once delivery on
   the channel's stream composed with theorems 1 and 7 (composition not mechanised); the close
   protocol across two endpoints (refuted on the real code by known findings K4, K9, K10). *)

(* non-vacuity: create, establish, flush (id 1 assigned, OPEN sent), ACK received,
   close, reset response: the channel walks connecting -> open -> closing -> closed *)
Example C13_example :
  let ins := [ICreate false None true None None [104; 105] []; IEstablished; IFlush [false; false];
              IRecv 1 WEBRTC_DCEP [DATA_CHANNEL_ACK] true []; IClose 0 false; ITransmitReconfig; IResetResponse 100] in
  let '(s, evs) := run (init 1 100) ins in
  map (fun e => (opens 0 e, closes 0 e)) evs = [(0, 0); (0, 0); (0, 0); (1, 0); (0, 0); (0, 0); (0, 1)]%nat /\
  rk s 0 = 3 /\ table s = [].
Proof. vm_compute. repeat split. Qed.

(* non-vacuity of theorem 8b: the peer's OPEN for stream 0 arrives before this end is
   established; close() during the handshake; established; the RE-CONFIG task resets stream 0 *)
Example C13_handshake_close_example :
  let open0 := [DATA_CHANNEL_OPEN; 0; 0; 0; 0; 0; 0; 0; 0; 1; 0; 0; 120] in
  let ins := [IRecv 0 WEBRTC_DCEP open0 true []; IClose 0 true; IEstablished; ITransmitReconfig] in
  let '(s, evs) := run (init 1 100) ins in
  rk s 0 = 2 /\ nth 3 evs [] = [EvReconfigRequest 100 [0]].
Proof. vm_compute. repeat split. Qed.

(* non-vacuity of theorem 4: two sends while the association is congested leave
   bufferedAmount = 5 with both messages queued; a flush drains it to 0 *)
Example C13_buffered_example :
  let ins := [ICreate false None true None None [104] []; IEstablished; IFlush [false; false];
              IRecv 1 WEBRTC_DCEP [DATA_CHANNEL_ACK] true []; ISend 0 WEBRTC_BINARY [1; 2; 3]; ISend 0 WEBRTC_BINARY [4; 5]] in
  Forall wf_input (ins ++ [IFlush [false; false; false]]) /\
  ch_buf (getc (fst (run (init 1 100) ins)) 0) = 5 /\
  ch_buf (getc (fst (run (init 1 100) (ins ++ [IFlush [false; false; false]]))) 0) = 0.
Proof. split; [repeat constructor; cbn; discriminate|vm_compute; split; reflexivity]. Qed.

