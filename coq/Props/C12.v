(* C12 -- bundled RTP/RTCP is routed to exactly the right receivers and senders.
   Property theorems only; proofs live in Proof/RouterP.v. *)
From Coq Require Import ZArith List Bool.
From AV Require Import Lib.Bytes Model.Router Proof.RouterP.
Import ListNotations.
Local Open Scope Z_scope.

(* Every state reachable from the empty router by ANY operation list satisfies
   the representation invariant (sets are duplicate free), so `len(set) == 1`
   in the code means "exactly one receiver accepts". *)
Theorem C12_reachable_inv : forall ops, inv (fst (run empty ops)).
Proof. intros ops. exact (inv_run ops empty inv_empty). Qed.
Print Assumptions C12_reachable_inv.

(* RTP: a packet is handed to at most one receiver (option type), namely the
   one registered for the SSRC if it accepts the payload type, or -- for an
   unknown SSRC -- the unique receiver accepting the payload type, in which case
   the SSRC is latched and nothing else changes; otherwise it is dropped and the
   state is unchanged. *)
Theorem C12_route_rtp_spec : forall s ssrc pt,
  inv s ->
  let '(res, s') := route_rtp s ssrc pt in
  match res with
  | Some r =>
      accepts s r pt /\
      ((ssrc_of s ssrc = Some r /\ s' = s) \/
       (ssrc_of s ssrc = None /\ (forall r', accepts s r' pt -> r' = r) /\ s' = latch s ssrc r))
  | None =>
      s' = s /\
      match ssrc_of s ssrc with
      | Some r => ~ accepts s r pt
      | None => (forall r, ~ accepts s r pt) \/
                (exists r1 r2, r1 <> r2 /\ accepts s r1 pt /\ accepts s r2 pt)
      end
  end.
Proof. exact route_rtp_spec. Qed.
Print Assumptions C12_route_rtp_spec.

Theorem C12_route_rtp_complete : forall s ssrc pt r,
  inv s -> accepts s r pt ->
  (ssrc_of s ssrc = Some r \/ (ssrc_of s ssrc = None /\ forall r', accepts s r' pt -> r' = r)) ->
  fst (route_rtp s ssrc pt) = Some r.
Proof. exact route_rtp_complete. Qed.
Print Assumptions C12_route_rtp_complete.

(* RTCP: recipients are exactly the receivers / senders whose SSRCs the packet
   reports on, including the SSRC list inside a REMB. *)
Theorem C12_route_rtcp_spec : forall s p,
  unpack_remb_ssrcs match p with Psfb _ _ fci => fci | _ => [] end <> RembCrash ->
  let '(rs, ss, raised) := route_rtcp s p in
  raised = false /\
  (forall r, In r rs <-> exists ssrc, In ssrc (rtcp_recv_ssrcs p) /\ lookup (ssrc_table s) ssrc = Some r) /\
  (forall h, In h ss <-> exists ssrc, In ssrc (rtcp_send_ssrcs p) /\ lookup (senders s) ssrc = Some h).
Proof. exact route_rtcp_spec. Qed.
Print Assumptions C12_route_rtcp_spec.

(* ... and the premise holds for every byte string: the REMB parser returns a
   value or ValueError, never another exception. *)
Theorem C12_remb_never_crashes : forall data, bytes_ok data -> unpack_remb_ssrcs data <> RembCrash.
Proof. exact unpack_remb_never_crashes. Qed.
Print Assumptions C12_remb_never_crashes.

(* Once unregistered, nothing is routed to a receiver / sender again, for ANY
   later interleaving of operations that does not register it again. *)
Theorem C12_unregistered_receiver_never_routed : forall s r ops,
  Forall (fun o => ~ registers_recv o r) ops ->
  Forall (fun x => ~ out_mentions_recv x r) (snd (run (unregister_receiver s r) ops)).
Proof.
  intros s r ops H.
  exact (never_routed_to_absent_receiver ops _ r (unregister_receiver_rabsent s r) H).
Qed.
Print Assumptions C12_unregistered_receiver_never_routed.

Theorem C12_unregistered_sender_never_routed : forall s h ops,
  Forall (fun o => ~ registers_send o h) ops ->
  Forall (fun x => ~ out_mentions_send x h) (snd (run (unregister_sender s h) ops)).
Proof.
  intros s h ops H.
  exact (never_routed_to_absent_sender ops _ h (unregister_sender_sabsent s h) H).
Qed.
Print Assumptions C12_unregistered_sender_never_routed.

(* A latched SSRC sticks: while the receiver stays registered and the SSRC is
   not re-registered for another receiver, packets keep going to it. *)
Theorem C12_latched_sticks : forall ops s ssrc pt r,
  latched s ssrc pt r -> Forall (fun o => ~ disturbs o ssrc r) ops ->
  fst (route_rtp (fst (run s ops)) ssrc pt) = Some r.
Proof. exact latched_sticks. Qed.
Print Assumptions C12_latched_sticks.

(* non-vacuity: a concrete history in which an unknown SSRC is latched *)
Example C12_example_latch :
  let s := fst (run empty [RegRecv 1 [100] [96; 97] None; RegRecv 2 [200] [98] (Some 7)]) in
  inv s /\ route_rtp s 555 98 = (Some 2, latch s 555 2) /\ latched (latch s 555 2) 555 98 2.
Proof. split; [exact (C12_reachable_inv _)|]. split; [reflexivity|]. split; [reflexivity|]. cbn. auto. Qed.
