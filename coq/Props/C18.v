(* C18 -- RTCP receiver reports carry correct loss / jitter figures that always fit the wire.
   Property theorems only; proofs live in Proof/Stats*.v.  The model (Model/Stats.v) is the
   REPAIRED code (extended highest sequence number in the report; 32-bit modular transit
   difference in StreamStatistics.add).

   Vocabulary (Proof/StatsRunP.v, Proof/StatsMainP.v):
     evs            any history of events of one receiver: RTP packets of the stream (sequence
                    number, RTP timestamp, arrival clock -- all arbitrary integers, the sequence
                    number a 16-bit wire value), sender reports, report instants, probes
     pkts evs       its RTP packets in arrival order;  count = how many
     fwd h          sum of the forward serial steps ((seq - highest) mod 2^16, each in 1..32767)
                    taken by the highest sequence number; first_seq h + fwd h is the extended
                    highest sequence number
     inorder h      the packets that advanced the highest sequence number
     jitter_ref h   RFC 3550 A.8 recurrence (scaled by 16) over successive packets of inorder h
     upto_last_report evs   the prefix of evs ending with its last report instant
     report_after S rs pre now   the output of a report instant that follows history `pre` *)
From Coq Require Import ZArith List Bool Lia.
From AV Require Import Lib.Bytes Gen.Utils Gen.RtpConst Model.Stats
  Proof.StatsP Proof.StatsRunP Proof.StatsMainP Proof.StatsShiftP Proof.StatsOldP.
Import ListNotations.
Local Open Scope Z_scope.

(* report_after really is what `run` emits at that position of any longer history *)
Theorem C18_report_position : forall S rs pre now post,
  nth_error (snd (run S rs recv0 (pre ++ Report now :: post))) (length pre) =
  Some (report_after S rs pre now).
Proof. exact report_after_is_output. Qed.
Print Assumptions C18_report_position.

(* ---- counts ---------------------------------------------------------------------- *)
(* After ANY history with at least one packet: packets_received counts the adds exactly;
   cycles / max_seq are the high / low part of (first + forward steps); packets_expected
   and packets_lost are as in RFC 3550 A.3. *)
Theorem C18_counts : forall S rs evs,
  Forall ev_ok evs -> pkts evs <> [] ->
  let h := pkts evs in
  exists s,
    stream (fst (run S rs recv0 evs)) = Some s /\
    packets_received s = count h /\
    base_seq s = Some (first_seq h) /\
    max_seq s = Some ((first_seq h + fwd h) mod 65536) /\
    cycles s = ((first_seq h + fwd h) / 65536) * 65536 /\
    packets_expected s = Ok (fwd h + 1) /\
    packets_lost s = Ok (rtp_clamp_packets_lost (fwd h + 1 - count h)) /\
    0 <= fwd h.
Proof. exact counts_main. Qed.
Print Assumptions C18_counts.

(* What "forward steps" means: if the wire numbers are the low 16 bits of the sender's true
   (unbounded) numbers n0 :: ns, and every arrival lies within half the sequence space of
   the highest true number so far (any loss, duplication, reordering, any number of wraps),
   then fwd = highest true number - first true number. *)
Theorem C18_counts_unwrapped : forall h n0 ns,
  map p_seq h = map (fun n => n mod 65536) (n0 :: ns) -> within_window n0 ns ->
  fwd h = max_from n0 ns - n0 /\
  first_seq h = n0 mod 65536 /\
  first_seq h + fwd h = n0 mod 65536 + (max_from n0 ns - n0).
Proof. exact fwd_unwrapped. Qed.
Print Assumptions C18_counts_unwrapped.

(* ... and under the same hypothesis the "in-order" packets (those the jitter recurrence
   runs over) are exactly the packets whose true number exceeds every earlier one. *)
Theorem C18_inorder_unwrapped : forall h n0 ns,
  map p_seq h = map (fun n => n mod 65536) (n0 :: ns) -> within_window n0 ns ->
  inorder h = match h with [] => [] | p :: l => p :: newmax_from n0 ns l end.
Proof. exact inorder_unwrapped. Qed.
Print Assumptions C18_inorder_unwrapped.

(* ---- the whole report --------------------------------------------------------------- *)
(* Every report generated after a history `pre` carries exactly the reference figures:
   fraction lost of the interval since the previous report (RFC 3550 A.3), clamped
   cumulative loss, extended highest sequence number (mod 2^32), jitter, LSR = middle 32
   bits of the NTP time of the last SR from that source, DLSR = delay since it in 1/65536 s
   (0 outside (0, 65536 s)); and the bytes are the packing of exactly these fields. *)
Theorem C18_report : forall S rs pre now,
  Forall ev_ok pre -> pkts pre <> [] ->
  report_after S rs pre now =
  OReport (report_ref S pre now) (rr_bytes rs (report_ref S pre now)).
Proof. exact report_main. Qed.
Print Assumptions C18_report.

(* no packet yet: nothing is sent and nothing changes *)
Theorem C18_report_none : forall S rs pre now,
  pkts pre = [] -> Forall ev_ok pre ->
  step S rs (fst (run S rs recv0 pre)) (Report now) = (fst (run S rs recv0 pre), ONoReport).
Proof. exact report_none. Qed.
Print Assumptions C18_report_none.

(* ---- fraction lost ------------------------------------------------------------------ *)
Theorem C18_fraction : forall S rs pre now,
  Forall ev_ok pre -> pkts pre <> [] ->
  let h := pkts pre in
  let hp := pkts (upto_last_report pre) in
  exists i b,
    report_after S rs pre now = OReport i b /\
    ri_fraction i = rfc_fraction (expected_ref h - expected_ref hp) (count h - count hp) /\
    0 <= ri_fraction i <= 255 /\
    (exists post, pre = upto_last_report pre ++ post /\ has_report post = false).
Proof.
  intros S rs pre now Hok Hne. cbv zeta.
  exists (report_ref S pre now), (rr_bytes rs (report_ref S pre now)).
  split; [exact (report_main S rs pre now Hok Hne)|]. split; [reflexivity|].
  split; [|exact (upto_prefix pre)].
  exact (fraction_ref_range S pre now Hok Hne).
Qed.
Print Assumptions C18_fraction.

(* ---- jitter --------------------------------------------------------------------------- *)
(* _jitter_q4 follows J += |D| - ((J + 8) >> 4) over successive in-order packets that begin
   a new timestamp (jitter_ref / jit / new_jit), |D| = dist32 D being the distance of
   (arrival difference - timestamp difference) to the nearest multiple of 2^32. *)
Theorem C18_jitter_recurrence : forall S rs evs,
  Forall ev_ok evs -> pkts evs <> [] ->
  exists s, stream (fst (run S rs recv0 evs)) = Some s /\
            jitter_q4 s = jitter_ref (pkts evs) /\ jitter s = jitter_ref (pkts evs) / 16 /\
            0 <= jitter_q4 s <= 34359738368.
Proof. exact jitter_main. Qed.
Print Assumptions C18_jitter_recurrence.

(* the code's `& 0xFFFFFFFF` / fold at 2^31 is that distance; it ignores timestamp and clock
   wrap-around (any multiple of 2^32) and equals |D| whenever |D| <= 2^31 *)
Theorem C18_transit_diff : forall x,
  transit_diff x = dist32 x /\
  (forall k, transit_diff (x + k * 4294967296) = transit_diff x) /\
  (Z.abs x <= 2147483648 -> transit_diff x = Z.abs x) /\
  0 <= transit_diff x <= 2147483648.
Proof.
  intros x. split; [apply transit_diff_dist|]. split; [intros k; apply transit_diff_periodic|].
  split; [apply transit_diff_small|apply transit_diff_range].
Qed.
Print Assumptions C18_transit_diff.

(* ---- every field fits, nothing raises --------------------------------------------------- *)
(* For ALL histories: no event raises (no ORtpCrash / OReportCrash / probe crash), every
   report's fields are within their wire ranges and its serialisation succeeds with 32
   well-formed bytes.  S and rs are 32-bit SSRCs. *)
Theorem C18_fits : forall S rs evs,
  0 <= S < 4294967296 -> 0 <= rs < 4294967296 -> Forall ev_ok evs ->
  Forall out_fits (snd (run S rs recv0 evs)) /\
  length (snd (run S rs recv0 evs)) = length evs.
Proof.
  intros S rs evs HS Hrs Hok. split; [exact (fits_main S rs evs HS Hrs Hok)|apply run_length].
Qed.
Print Assumptions C18_fits.

(* ---- T+: the figures never run backwards ----------------------------------------------- *)
(* As the history grows, the extended highest sequence number (before its reduction mod
   2^32), hence packets_expected, and the packet count never decrease: consecutive reports
   cannot show the highest sequence number jumping back (what the unrepaired code did at
   every wrap). *)
Theorem C18_monotone : forall pre more,
  pkts pre <> [] ->
  first_seq (pkts (pre ++ more)) = first_seq (pkts pre) /\
  fwd (pkts pre) <= fwd (pkts (pre ++ more)) /\
  count (pkts pre) <= count (pkts (pre ++ more)).
Proof. exact fwd_monotone. Qed.
Print Assumptions C18_monotone.

(* ---- the unrepaired code violated the statement (witnesses replayed on the implementation,
   corpus/C18.jsonl) ------------------------------------------------------------------------ *)
Theorem C18_highest_refuted_before_fix :
  exists evs i b,
    Forall ev_ok evs /\
    last (snd (run_old 1234 1 recv0 (evs ++ [Report 0]))) ONone = OReport i b /\
    ri_highest i = 1 /\ (first_seq (pkts evs) + fwd (pkts evs)) mod 4294967296 = 65537.
Proof. exact highest_refuted_before_fix. Qed.
Print Assumptions C18_highest_refuted_before_fix.

Theorem C18_jitter_refuted_before_fix :
  exists evs s,
    Forall ev_ok evs /\ stream (fst (run_old 1234 1 recv0 evs)) = Some s /\
    jitter s = 268435456 /\ jitter_ref (pkts evs) / 16 = 0.
Proof. exact jitter_refuted_before_fix. Qed.
Print Assumptions C18_jitter_refuted_before_fix.

Theorem C18_fits_refuted_before_fix :
  exists evs i,
    Forall ev_ok evs /\
    last (snd (run_old 1234 1 recv0 (evs ++ [Report 0]))) ONone = OReport i Crash /\
    4294967296 <= ri_jitter i.
Proof. exact fits_refuted_before_fix. Qed.
Print Assumptions C18_fits_refuted_before_fix.

(* ---- C17: independence of the sequence-number and timestamp origins ---------------------- *)
(* Add any d16 (mod 2^16) to every sequence number and any d32 (mod 2^32) to every RTP
   timestamp of a history: every probe and every report is unchanged -- packets_received,
   packets_expected, packets_lost, fraction_lost, jitter, lsr, dlsr -- except that the
   extended highest sequence number moves with the first sequence number:
   highest' = (highest + (first' - first)) mod 2^32, first' = uint16_add first d16. *)
Theorem stats_shift_invariant : forall S rs d16 d32 evs,
  Forall ev_ok2 evs ->
  Forall2 (out_shifted (shift_of d16 (pkts evs)))
          (snd (run S rs recv0 evs))
          (snd (run S rs recv0 (map (shift_ev d16 d32) evs))).
Proof. exact shift_main. Qed.
Print Assumptions stats_shift_invariant.

(* ... where that move is d16 mod 2^16, or that minus 2^16 when the first number wraps *)
Theorem stats_shift_amount : forall d16 h,
  Forall (fun p => 0 <= p_seq p < 65536) h -> h <> [] ->
  shift_of d16 h = d16 mod 65536 \/ shift_of d16 h = d16 mod 65536 - 65536.
Proof. exact shift_of_values. Qed.
Print Assumptions stats_shift_amount.

(* ---- non-vacuity ---------------------------------------------------------------------- *)
(* sequence wrap (65533, 65534, [65535 and 0 lost], 1, 2, duplicate 1), timestamp wrap,
   a report in between (so the fraction is that of the second interval: 1 lost of 4
   expected = 64/256), an SR 32 * 2^-20 s before the report *)
Example C18_example :
  let pre := [Rtp 65533 4294967136 1000; Rtp 65534 0 1180; Report 5; Rtp 1 480 1640;
              SrEv 7 (12345 * 65536) 1048576; Rtp 2 640 1800; Rtp 1 480 1801] in
  Forall ev_ok pre /\ pkts pre <> [] /\
  report_after 7 9 pre (1048576 + 32) =
  OReport (mkInfo 7 64 1 65538 2 12345 2)
          (Ok [129; 201; 0; 7; 0; 0; 0; 9; 0; 0; 0; 7; 64; 0; 0; 1; 0; 1; 0; 2; 0; 0; 0; 2;
               0; 0; 48; 57; 0; 0; 0; 2]).
Proof.
  cbv zeta. split; [repeat constructor; cbn; auto with zarith|]. split; [discriminate|].
  vm_compute. reflexivity.
Qed.

(* the window hypothesis of C18_counts_unwrapped is satisfiable across a wrap *)
Example C18_example_window :
  within_window 65533 [65534; 65537; 65538; 65537] /\
  map p_seq [(65533, 0, 0); (65534, 0, 0); (1, 0, 0); (2, 0, 0); (1, 0, 0)] =
  map (fun n => n mod 65536) [65533; 65534; 65537; 65538; 65537].
Proof. split; [cbn; lia|reflexivity]. Qed.
