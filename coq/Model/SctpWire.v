(* Model of the SCTP wire codec of aiortc (src/aiortc/rtcsctptransport.py,
   lines ~88-560 of the REPAIRED tree): decode_params / encode_params / padl,
   the Chunk class hierarchy (__init__ = parse of a chunk body, __bytes__ /
   body = serialisation), parse_packet / serialize_packet and the three
   RE-CONFIG parameter classes.  struct.error / IndexError are explicit Crash
   branches; `while` loops run on fuel.  No proofs here.

   Class hierarchy -> constructors of `chunk`:
     Chunk (plain body)      : ShutdownAck 8, CookieEcho 10, CookieAck 11,
                               ShutdownComplete 14              -> CPlain ty
     BaseParamsChunk         : Heartbeat 4, HeartbeatAck 5, Abort 6, Error 9,
                               Reconfig 130                     -> CParams ty
     BaseInitChunk           : Init 1, InitAck 2                -> CInit ty
     DataChunk 0, SackChunk 3, ShutdownChunk 7, ForwardTsnChunk 192. *)
From Coq Require Import ZArith List Bool.
From AV Require Import Lib.Sx Lib.Bytes Gen.SctpConst Model.Crc32c.
Import ListNotations.
Local Open Scope Z_scope.

Inductive result (T : Type) : Type :=
| Ok (v : T)
| ValueErr          (* ValueError *)
| Crash             (* any other exception (struct.error, IndexError ...) *)
| OutOfFuel.        (* a loop did not finish within the fuel *)
Arguments Ok {T} v.
Arguments ValueErr {T}.
Arguments Crash {T}.
Arguments OutOfFuel {T}.

Definition bind {T U} (r : result T) (f : T -> result U) : result U :=
  match r with
  | Ok v => f v
  | ValueErr => ValueErr
  | Crash => Crash
  | OutOfFuel => OutOfFuel
  end.

Definition nonempty (b : bytes) : bool := match b with [] => false | _ => true end.
Definition in_u8 (x : Z) : bool := (0 <=? x) && (x <? 256).
Definition in_u16 (x : Z) : bool := (0 <=? x) && (x <? 65536).
Definition in_u32 (x : Z) : bool := (0 <=? x) && (x <? 4294967296).
Definition zpad (n : Z) : bytes := zeros (Z.to_nat n).          (* b"\x00" * n *)

(* ------------------------------------------------------------------ parameters *)
Definition param := (Z * bytes)%type.

(* encode_params: the loop state is (body, padding) *)
Definition encode_params_step (st : bytes * bytes) (p : param) : bytes * bytes :=
  let param_length := len (snd p) + 4 in
  ((fst st ++ snd st) ++ be16 (fst p) ++ be16 param_length ++ snd p,
   zpad (padl param_length)).
Definition encode_params (ps : list param) : bytes :=
  fst (fold_left encode_params_step ps ([], [])).

(* pack("!HH", type, len(value)+4) succeeds *)
Definition param_okb (p : param) : bool :=
  in_u16 (fst p) && in_u16 (len (snd p) + 4) && bytes_okb (snd p).
Definition params_okb (ps : list param) : bool := forallb param_okb ps.

(* decode_params (repaired: parameter length < 4 or past the body = ValueError) *)
Fixpoint decode_params_loop (fuel : nat) (body : bytes) (pos : nat) : result (list param) :=
  match fuel with
  | O => OutOfFuel
  | S fuel' =>
      if Z.of_nat pos <=? len body - 4 then
        match u16 body pos, u16 body (pos + 2) with
        | Some param_type, Some param_length =>
            if (param_length <? 4) || (Z.of_nat pos + param_length >? len body) then ValueErr
            else
              match decode_params_loop fuel' body (pos + Z.to_nat (param_length + padl param_length)) with
              | Ok rest => Ok ((param_type, slice body (pos + 4) (pos + Z.to_nat param_length)) :: rest)
              | e => e
              end
        | _, _ => Crash
        end
      else Ok []
  end.
Definition decode_params (body : bytes) : result (list param) :=
  decode_params_loop (S (length body)) body 0.

(* ------------------------------------------------------------------ chunks *)
Inductive chunk :=
| CData (flags tsn stream_id stream_seq protocol : Z) (user_data : bytes)
| CInit (ty flags initiate_tag advertised_rwnd outbound_streams inbound_streams initial_tsn : Z)
        (params : list param)
| CSack (flags cumulative_tsn advertised_rwnd : Z) (gaps : list (Z * Z)) (duplicates : list Z)
| CParams (ty flags : Z) (params : list param)
| CShutdown (flags cumulative_tsn : Z)
| CPlain (ty flags : Z) (body : bytes)
| CForwardTsn (flags cumulative_tsn : Z) (streams : list (Z * Z)).

Definition chunk_type (c : chunk) : Z :=
  match c with
  | CData _ _ _ _ _ _ => 0
  | CInit ty _ _ _ _ _ _ _ => ty
  | CSack _ _ _ _ _ => 3
  | CParams ty _ _ => ty
  | CShutdown _ _ => 7
  | CPlain ty _ _ => ty
  | CForwardTsn _ _ _ => 192
  end.

Definition chunk_flags (c : chunk) : Z :=
  match c with
  | CData f _ _ _ _ _ => f
  | CInit _ f _ _ _ _ _ _ => f
  | CSack f _ _ _ _ => f
  | CParams _ f _ => f
  | CShutdown f _ => f
  | CPlain _ f _ => f
  | CForwardTsn f _ _ => f
  end.

(* ---- constructors: Cls(flags=..., body=...) as called by parse_packet ---- *)
Definition plain_ctor (ty flags : Z) (body : bytes) : result chunk := Ok (CPlain ty flags body).

Definition params_ctor (ty flags : Z) (body : bytes) : result chunk :=
  if nonempty body then bind (decode_params body) (fun ps => Ok (CParams ty flags ps))
  else Ok (CParams ty flags []).

Definition data_ctor (flags : Z) (body : bytes) : result chunk :=
  if nonempty body then
    if len body <? 12 then ValueErr
    else match u32 body 0, u16 body 4, u16 body 6, u32 body 8 with
         | Some tsn, Some stream_id, Some stream_seq, Some protocol =>
             Ok (CData flags tsn stream_id stream_seq protocol (from body 12))
         | _, _, _, _ => Crash
         end
  else Ok (CData flags 0 0 0 0 []).

(* ForwardTsnChunk: `while pos < len(body)` reading (stream_id, stream_seq) *)
Fixpoint fwd_streams_loop (fuel : nat) (body : bytes) (pos : nat) : result (list (Z * Z)) :=
  match fuel with
  | O => OutOfFuel
  | S fuel' =>
      if Z.of_nat pos <? len body then
        match u16 body pos, u16 body (pos + 2) with
        | Some a, Some b =>
            match fwd_streams_loop fuel' body (pos + 4) with
            | Ok rest => Ok ((a, b) :: rest)
            | e => e
            end
        | _, _ => Crash
        end
      else Ok []
  end.

Definition fwd_ctor (flags : Z) (body : bytes) : result chunk :=
  if nonempty body then
    if (len body <? 4) || negb (len body mod 4 =? 0) then ValueErr
    else match u32 body 0 with
         | Some cumulative_tsn =>
             bind (fwd_streams_loop (S (length body)) body 4)
                  (fun streams => Ok (CForwardTsn flags cumulative_tsn streams))
         | None => Crash
         end
  else Ok (CForwardTsn flags 0 []).

Definition init_ctor (ty flags : Z) (body : bytes) : result chunk :=
  if nonempty body then
    if len body <? 16 then ValueErr
    else match u32 body 0, u32 body 4, u16 body 8, u16 body 10, u32 body 12 with
         | Some initiate_tag, Some advertised_rwnd, Some outbound_streams, Some inbound_streams,
           Some initial_tsn =>
             bind (decode_params (from body 16))
                  (fun ps => Ok (CInit ty flags initiate_tag advertised_rwnd outbound_streams
                                       inbound_streams initial_tsn ps))
         | _, _, _, _, _ => Crash
         end
  else Ok (CInit ty flags 0 0 0 0 0 []).

(* `for i in range(n): unpack_from("!HH", body, pos); pos += 4` *)
Fixpoint read_pairs (body : bytes) (pos n : nat) : option (list (Z * Z)) :=
  match n with
  | O => Some []
  | S n' =>
      match u16 body pos, u16 body (pos + 2) with
      | Some a, Some b =>
          match read_pairs body (pos + 4) n' with
          | Some rest => Some ((a, b) :: rest)
          | None => None
          end
      | _, _ => None
      end
  end.
Fixpoint read_u32s (body : bytes) (pos n : nat) : option (list Z) :=
  match n with
  | O => Some []
  | S n' =>
      match u32 body pos with
      | Some a =>
          match read_u32s body (pos + 4) n' with
          | Some rest => Some (a :: rest)
          | None => None
          end
      | None => None
      end
  end.

Definition sack_ctor (flags : Z) (body : bytes) : result chunk :=
  if nonempty body then
    if len body <? 12 then ValueErr
    else match u32 body 0, u32 body 4, u16 body 8, u16 body 10 with
         | Some cumulative_tsn, Some advertised_rwnd, Some nb_gaps, Some nb_duplicates =>
             if 12 + (nb_gaps + nb_duplicates) * 4 >? len body then ValueErr
             else match read_pairs body 12 (Z.to_nat nb_gaps) with
                  | Some gaps =>
                      match read_u32s body (12 + Z.to_nat nb_gaps * 4) (Z.to_nat nb_duplicates) with
                      | Some duplicates => Ok (CSack flags cumulative_tsn advertised_rwnd gaps duplicates)
                      | None => Crash
                      end
                  | None => Crash
                  end
         | _, _, _, _ => Crash
         end
  else Ok (CSack flags 0 0 [] []).

Definition shutdown_ctor (flags : Z) (body : bytes) : result chunk :=
  if nonempty body then
    if len body <? 4 then ValueErr
    else match u32 body 0 with
         | Some cumulative_tsn => Ok (CShutdown flags cumulative_tsn)
         | None => Crash
         end
  else Ok (CShutdown flags 0).

(* CHUNK_TYPES.get(chunk_type): None = unknown type (chunk skipped) *)
Definition chunk_ctor (ty flags : Z) (body : bytes) : option (result chunk) :=
  if ty =? 0 then Some (data_ctor flags body)
  else if (ty =? 1) || (ty =? 2) then Some (init_ctor ty flags body)
  else if ty =? 3 then Some (sack_ctor flags body)
  else if (ty =? 4) || (ty =? 5) || (ty =? 6) || (ty =? 9) || (ty =? 130) then Some (params_ctor ty flags body)
  else if ty =? 7 then Some (shutdown_ctor flags body)
  else if (ty =? 8) || (ty =? 10) || (ty =? 11) || (ty =? 14) then Some (plain_ctor ty flags body)
  else if ty =? 192 then Some (fwd_ctor flags body)
  else None.

(* chunk_cls in CHUNK_CLASSES_WITH_FIXED_PART (Data, Init, InitAck, Sack, Shutdown, ForwardTsn) *)
Definition has_fixed_part (ty : Z) : bool :=
  (ty =? 0) || (ty =? 1) || (ty =? 2) || (ty =? 3) || (ty =? 7) || (ty =? 192).

(* ---- serialisation ---------------------------------------------------------- *)
Definition pair_bytes (p : Z * Z) : bytes := be16 (fst p) ++ be16 (snd p).

(* the `body` attribute / property of each class *)
Definition chunk_body (c : chunk) : bytes :=
  match c with
  | CPlain _ _ body => body
  | CParams _ _ ps => encode_params ps
  | CInit _ _ initiate_tag advertised_rwnd outbound_streams inbound_streams initial_tsn ps =>
      (be32 initiate_tag ++ be32 advertised_rwnd ++ be16 outbound_streams ++ be16 inbound_streams
       ++ be32 initial_tsn) ++ encode_params ps
  | CShutdown _ cumulative_tsn => be32 cumulative_tsn
  | CForwardTsn _ cumulative_tsn streams =>
      fold_left (fun body s => body ++ pair_bytes s) streams (be32 cumulative_tsn)
  | CData _ _ _ _ _ _ => []        (* DataChunk / SackChunk override __bytes__; `body` is not used *)
  | CSack _ _ _ _ _ => []
  end.

(* Chunk.__bytes__ *)
Definition generic_bytes (ty flags : Z) (body : bytes) : bytes :=
  (be8 ty ++ be8 flags ++ be16 (len body + 4) ++ body) ++ zpad (padl (len body)).

Definition chunk_bytes (c : chunk) : bytes :=
  match c with
  | CData flags tsn stream_id stream_seq protocol user_data =>
      let chunk_length := 16 + len user_data in
      let data := (be8 0 ++ be8 flags ++ be16 chunk_length ++ be32 tsn ++ be16 stream_id ++ be16 stream_seq
                   ++ be32 protocol) ++ user_data in
      if negb (chunk_length mod 4 =? 0) then data ++ zpad (padl chunk_length) else data
  | CSack flags cumulative_tsn advertised_rwnd gaps duplicates =>
      let chunk_length := 16 + (Z.of_nat (length gaps) + Z.of_nat (length duplicates)) * 4 in
      let data := be8 3 ++ be8 flags ++ be16 chunk_length ++ be32 cumulative_tsn ++ be32 advertised_rwnd
                  ++ be16 (Z.of_nat (length gaps)) ++ be16 (Z.of_nat (length duplicates)) in
      let data := fold_left (fun d g => d ++ pair_bytes g) gaps data in
      fold_left (fun d t => d ++ be32 t) duplicates data
  | _ => generic_bytes (chunk_type c) (chunk_flags c) (chunk_body c)
  end.

(* every struct.pack in bytes(chunk) gets in-range values, byte strings are byte
   strings, and the type number is the one of an existing class *)
Definition pair_okb (p : Z * Z) : bool := in_u16 (fst p) && in_u16 (snd p).
Definition chunk_okb (c : chunk) : bool :=
  in_u8 (chunk_flags c) &&
  match c with
  | CData _ tsn stream_id stream_seq protocol user_data =>
      in_u32 tsn && in_u16 stream_id && in_u16 stream_seq && in_u32 protocol && bytes_okb user_data
      && in_u16 (16 + len user_data)
  | CInit ty _ initiate_tag advertised_rwnd outbound_streams inbound_streams initial_tsn ps =>
      ((ty =? 1) || (ty =? 2)) && in_u32 initiate_tag && in_u32 advertised_rwnd && in_u16 outbound_streams
      && in_u16 inbound_streams && in_u32 initial_tsn && params_okb ps
      && in_u16 (len (chunk_body c) + 4)
  | CSack _ cumulative_tsn advertised_rwnd gaps duplicates =>
      in_u32 cumulative_tsn && in_u32 advertised_rwnd && forallb pair_okb gaps && forallb in_u32 duplicates
      && in_u16 (16 + (Z.of_nat (length gaps) + Z.of_nat (length duplicates)) * 4)
  | CParams ty _ ps =>
      ((ty =? 4) || (ty =? 5) || (ty =? 6) || (ty =? 9) || (ty =? 130)) && params_okb ps
      && in_u16 (len (chunk_body c) + 4)
  | CShutdown _ cumulative_tsn => in_u32 cumulative_tsn
  | CPlain ty _ body =>
      ((ty =? 8) || (ty =? 10) || (ty =? 11) || (ty =? 14)) && bytes_okb body && in_u16 (len body + 4)
  | CForwardTsn _ cumulative_tsn streams =>
      in_u32 cumulative_tsn && forallb pair_okb streams && in_u16 (len (chunk_body c) + 4)
  end.

(* ------------------------------------------------------------------ packets *)
Fixpoint parse_chunks (fuel : nat) (data : bytes) (pos : nat) : result (list chunk) :=
  match fuel with
  | O => OutOfFuel
  | S fuel' =>
      if Z.of_nat pos <=? len data - SCTP_CHUNK_HEADER_LENGTH then
        match u8 data pos, u8 data (pos + 1), u16 data (pos + 2) with
        | Some chunk_type, Some chunk_flags, Some chunk_length =>
            if (chunk_length <? SCTP_CHUNK_HEADER_LENGTH) || (Z.of_nat pos + chunk_length >? len data)
            then ValueErr
            else
              let chunk_body := slice data (pos + Z.to_nat SCTP_CHUNK_HEADER_LENGTH)
                                      (pos + Z.to_nat chunk_length) in
              let next := (pos + Z.to_nat (chunk_length + padl chunk_length))%nat in
              match chunk_ctor chunk_type chunk_flags chunk_body with
              | Some r =>
                  (* a received chunk of a class with mandatory fields must not be empty *)
                  if negb (nonempty chunk_body) && has_fixed_part chunk_type then ValueErr
                  else bind r (fun c => bind (parse_chunks fuel' data next) (fun cs => Ok (c :: cs)))
              | None => parse_chunks fuel' data next
              end
        | _, _, _ => Crash
        end
      else Ok []
  end.

Definition checksum_input (data : bytes) : bytes := slice data 0 8 ++ [0; 0; 0; 0] ++ from data 12.

Definition parse_packet (data : bytes) : result (Z * Z * Z * list chunk) :=
  if len data <? SCTP_PACKET_MINIMUM_LENGTH then ValueErr
  else match u16 data 0, u16 data 2, u32 data 4, u32le data 8 with
       | Some source_port, Some destination_port, Some verification_tag, Some checksum =>
           if negb (checksum =? crc32c (checksum_input data)) then ValueErr
           else bind (parse_chunks (S (length data)) data (Z.to_nat SCTP_COMMON_HEADER_LENGTH))
                     (fun chunks => Ok (source_port, destination_port, verification_tag, chunks))
       | _, _, _, _ => Crash
       end.

(* header + pack("<L", crc32c(header + 0000 + bytes(chunk))) + bytes(chunk), for packable values *)
Definition packet_bytes (source_port destination_port verification_tag : Z) (data : bytes) : bytes :=
  let header := be16 source_port ++ be16 destination_port ++ be32 verification_tag in
  let checksum := crc32c (header ++ [0; 0; 0; 0] ++ data) in
  header ++ le32 checksum ++ data.

Definition serialize_packet (source_port destination_port verification_tag : Z) (c : chunk) : result bytes :=
  if in_u16 source_port && in_u16 destination_port && in_u32 verification_tag && chunk_okb c
  then Ok (packet_bytes source_port destination_port verification_tag (chunk_bytes c))
  else Crash.

(* ------------------------------------------------------------------ RE-CONFIG parameters (RFC 6525) *)
Inductive rparam :=
| ROut (request_sequence response_sequence last_tsn : Z) (streams : list Z)   (* 13 *)
| RAdd (request_sequence new_streams : Z)                                      (* 17 *)
| RResp (response_sequence result : Z).                                        (* 16 *)

Definition rparam_bytes (p : rparam) : bytes :=
  match p with
  | ROut request_sequence response_sequence last_tsn streams =>
      fold_left (fun d s => d ++ be16 s) streams
                (be32 request_sequence ++ be32 response_sequence ++ be32 last_tsn)
  | RAdd request_sequence new_streams => be32 request_sequence ++ be16 new_streams ++ be16 0
  | RResp response_sequence result => be32 response_sequence ++ be32 result
  end.

Definition rparam_okb (p : rparam) : bool :=
  match p with
  | ROut a b c streams => in_u32 a && in_u32 b && in_u32 c && forallb in_u16 streams
  | RAdd a n => in_u32 a && in_u16 n
  | RResp a r => in_u32 a && in_u32 r
  end.

Definition rparam_type (p : rparam) : Z :=
  match p with ROut _ _ _ _ => 13 | RAdd _ _ => 17 | RResp _ _ => 16 end.

(* `for pos in range(12, len(data), 2): unpack_from("!H", data, pos)` *)
Fixpoint read_u16s (data : bytes) (pos n : nat) : option (list Z) :=
  match n with
  | O => Some []
  | S n' =>
      match u16 data pos with
      | Some a =>
          match read_u16s data (pos + 2) n' with
          | Some rest => Some (a :: rest)
          | None => None
          end
      | None => None
      end
  end.

Definition reset_out_parse (data : bytes) : result rparam :=
  if (len data <? 12) || negb (len data mod 2 =? 0) then ValueErr
  else match u32 data 0, u32 data 4, u32 data 8 with
       | Some request_sequence, Some response_sequence, Some last_tsn =>
           match read_u16s data 12 (Z.to_nat ((len data - 12 + 1) / 2)) with
           | Some streams => Ok (ROut request_sequence response_sequence last_tsn streams)
           | None => Crash
           end
       | _, _, _ => Crash
       end.

Definition add_out_parse (data : bytes) : result rparam :=
  if len data <? 8 then ValueErr
  else match u32 data 0, u16 data 4, u16 data 6 with
       | Some request_sequence, Some new_streams, Some _ => Ok (RAdd request_sequence new_streams)
       | _, _, _ => Crash
       end.

Definition reset_response_parse (data : bytes) : result rparam :=
  if len data <? 8 then ValueErr
  else match u32 data 0, u32 data 4 with
       | Some response_sequence, Some result => Ok (RResp response_sequence result)
       | _, _ => Crash
       end.

(* RECONFIG_PARAM_TYPES.get(type) then cls.parse(value) *)
Definition reconfig_param_parse (ty : Z) (data : bytes) : option (result rparam) :=
  if ty =? 13 then Some (reset_out_parse data)
  else if ty =? 16 then Some (reset_response_parse data)
  else if ty =? 17 then Some (add_out_parse data)
  else None.

(* ------------------------------------------------------------------ s-expression glue *)
Definition param_of_sx (x : sx) : param := (sx_z (sx_nth x 0), sx_zs (sx_nth x 1)).
Definition sx_of_param (p : param) : sx := L [A (fst p); of_zs (snd p)].
Definition pair_of_sx (x : sx) : Z * Z := (sx_z (sx_nth x 0), sx_z (sx_nth x 1)).
Definition sx_of_pair (p : Z * Z) : sx := L [A (fst p); A (snd p)].

Definition chunk_of_sx (x : sx) : chunk :=
  let ty := sx_z (sx_nth x 0) in
  let f := sx_z (sx_nth x 1) in
  let z n := sx_z (sx_nth x n) in
  if ty =? 0 then CData f (z 2%nat) (z 3%nat) (z 4%nat) (z 5%nat) (sx_zs (sx_nth x 6))
  else if (ty =? 1) || (ty =? 2) then
    CInit ty f (z 2%nat) (z 3%nat) (z 4%nat) (z 5%nat) (z 6%nat) (map param_of_sx (sx_l (sx_nth x 7)))
  else if ty =? 3 then
    CSack f (z 2%nat) (z 3%nat) (map pair_of_sx (sx_l (sx_nth x 4))) (sx_zs (sx_nth x 5))
  else if ty =? 7 then CShutdown f (z 2%nat)
  else if ty =? 192 then CForwardTsn f (z 2%nat) (map pair_of_sx (sx_l (sx_nth x 3)))
  else if (ty =? 8) || (ty =? 10) || (ty =? 11) || (ty =? 14) then CPlain ty f (sx_zs (sx_nth x 2))
  else CParams ty f (map param_of_sx (sx_l (sx_nth x 2))).

Definition sx_of_chunk (c : chunk) : sx :=
  match c with
  | CData f a b c d u => L [A 0; A f; A a; A b; A c; A d; of_zs u]
  | CInit ty f a b c d e ps => L [A ty; A f; A a; A b; A c; A d; A e; L (map sx_of_param ps)]
  | CSack f a b gaps dups => L [A 3; A f; A a; A b; L (map sx_of_pair gaps); of_zs dups]
  | CParams ty f ps => L [A ty; A f; L (map sx_of_param ps)]
  | CShutdown f a => L [A 7; A f; A a]
  | CPlain ty f body => L [A ty; A f; of_zs body]
  | CForwardTsn f a streams => L [A 192; A f; A a; L (map sx_of_pair streams)]
  end.

Definition rparam_of_sx (x : sx) : rparam :=
  let ty := sx_z (sx_nth x 0) in
  let z n := sx_z (sx_nth x n) in
  if ty =? 13 then ROut (z 1%nat) (z 2%nat) (z 3%nat) (sx_zs (sx_nth x 4))
  else if ty =? 17 then RAdd (z 1%nat) (z 2%nat)
  else RResp (z 1%nat) (z 2%nat).

Definition sx_of_rparam (p : rparam) : sx :=
  match p with
  | ROut a b c s => L [A 13; A a; A b; A c; of_zs s]
  | RAdd a n => L [A 17; A a; A n]
  | RResp a r => L [A 16; A a; A r]
  end.

Definition sx_of_result {T} (f : T -> sx) (r : result T) : sx :=
  match r with
  | Ok v => L [A 0; f v]
  | ValueErr => L [A ERR_VALUE]
  | Crash => L [A ERR_CRASH]
  | OutOfFuel => L [A ERR_FUEL]
  end.

Definition sx_of_packet (p : Z * Z * Z * list chunk) : sx :=
  let '(sp, dp, tag, cs) := p in L [A sp; A dp; A tag; L (map sx_of_chunk cs)].

(* operations:
   (0 sp dp tag chunk)   serialize_packet
   (1 bytes)             parse_packet
   (2 params)            encode_params
   (3 bytes)             decode_params
   (4 rparam)            bytes(param)
   (5 type bytes)        RECONFIG_PARAM_TYPES[type].parse(bytes)
   (6 chunk)             bytes(chunk)
   (7 sp dp tag chunk)   serialize, parse the result, serialize each parsed chunk again
   (8 bytes bytes)       outcome class of parse_packet on the first, parse_packet of the second *)
Definition main (x : sx) : sx :=
  let op := sx_z (sx_nth x 0) in
  if op =? 0 then
    sx_of_result of_zs (serialize_packet (sx_z (sx_nth x 1)) (sx_z (sx_nth x 2)) (sx_z (sx_nth x 3))
                                         (chunk_of_sx (sx_nth x 4)))
  else if op =? 1 then sx_of_result sx_of_packet (parse_packet (sx_zs (sx_nth x 1)))
  else if op =? 2 then
    let ps := map param_of_sx (sx_l (sx_nth x 1)) in
    sx_of_result of_zs (if params_okb ps then Ok (encode_params ps) else Crash)
  else if op =? 3 then
    sx_of_result (fun ps => L (map sx_of_param ps)) (decode_params (sx_zs (sx_nth x 1)))
  else if op =? 4 then
    let p := rparam_of_sx (sx_nth x 1) in
    sx_of_result of_zs (if rparam_okb p then Ok (rparam_bytes p) else Crash)
  else if op =? 5 then
    match reconfig_param_parse (sx_z (sx_nth x 1)) (sx_zs (sx_nth x 2)) with
    | Some r => sx_of_result sx_of_rparam r
    | None => L []
    end
  else if op =? 6 then
    let c := chunk_of_sx (sx_nth x 1) in
    sx_of_result of_zs (if chunk_okb c then Ok (chunk_bytes c) else Crash)
  else if op =? 8 then
    L [match parse_packet (sx_zs (sx_nth x 1)) with
       | Ok _ => A 0 | ValueErr => A ERR_VALUE | Crash => A ERR_CRASH | OutOfFuel => A ERR_FUEL end;
       sx_of_result sx_of_packet (parse_packet (sx_zs (sx_nth x 2)))]
  else
    let sp := sx_z (sx_nth x 1) in
    let dp := sx_z (sx_nth x 2) in
    let tag := sx_z (sx_nth x 3) in
    match serialize_packet sp dp tag (chunk_of_sx (sx_nth x 4)) with
    | Ok data =>
        match parse_packet data with
        | Ok (sp', dp', tag', cs) =>
            L [A 0; of_zs data; sx_of_packet (sp', dp', tag', cs);
               L (map (fun c => sx_of_result of_zs (serialize_packet sp' dp' tag' c)) cs)]
        | r => L [A 1; of_zs data; sx_of_result sx_of_packet r]
        end
    | r => sx_of_result of_zs r
    end.
