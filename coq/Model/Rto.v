(* RTCSctpTransport._update_rto (rtcsctptransport.py): the retransmission timeout every SCTP timer
   (T1 init, T2 shutdown, T3 retransmission) is armed with.  IEEE-754 binary64 arithmetic,
   modelled with Coq's primitive floats: the same operations in the same order, so the model is
   bit-exact.  Python's min / max are written out (they compare with < resp. >, so a NaN
   operand is kept or dropped depending on its position).  Definitions only. *)
From Coq Require Import PrimFloat List.
Import ListNotations.
Local Open Scope float_scope.

Definition SCTP_RTO_ALPHA : float := 1 / 8.
Definition SCTP_RTO_BETA : float := 1 / 4.
Definition SCTP_RTO_INITIAL : float := 3.
Definition SCTP_RTO_MIN : float := 1.
Definition SCTP_RTO_MAX : float := 60.

(* min(a, b): b if b < a else a;   max(a, b): b if b > a else a *)
Definition pymin (a b : float) : float := if PrimFloat.ltb b a then b else a.
Definition pymax (a b : float) : float := if PrimFloat.ltb a b then b else a.

Record rto_state := mkRto { srtt : option float; rttvar : float; rto : float }.

Definition rto_init : rto_state := mkRto None 0 SCTP_RTO_INITIAL.

Definition update_rto (s : rto_state) (R : float) : rto_state :=
  let '(sr, rv) :=
    match srtt s with
    | None => (R, R / 2)
    | Some sr0 =>
        let rv := (1 - SCTP_RTO_BETA) * rttvar s + SCTP_RTO_BETA * abs (sr0 - R) in
        let sr := (1 - SCTP_RTO_ALPHA) * sr0 + SCTP_RTO_ALPHA * R in
        (sr, rv)
    end in
  mkRto (Some sr) rv (pymax SCTP_RTO_MIN (pymin (sr + 4 * rv) SCTP_RTO_MAX)).

(* the states after each measurement *)
Fixpoint rto_run (s : rto_state) (rs : list float) : list rto_state :=
  match rs with
  | [] => []
  | R :: rs' => let s1 := update_rto s R in s1 :: rto_run s1 rs'
  end.
