(* Model of the sending half of aiortc/rtcrtpsender.py that property C11 speaks about:
     _run_rtp, the per-frame loop          rtcrtpsender.py 361-407
     _retransmit                            rtcrtpsender.py 332-349
     _handle_rtcp_packet, the NACK branch   rtcrtpsender.py 274-276
   A packet is the `rtp` record of Model/Rtp.v (C07).  The local variables
   `sequence_number` and `timestamp_origin` of _run_rtp (random_sequence_number(),
   random32()) are fields of the state, so they may start anywhere.  `__rtp_history`
   (a dict keyed by `sequence_number % RTP_HISTORY_SIZE`) is an association list with
   replace-on-set.  An encoded frame is what _next_encoded_frame returns: the payload
   list of the packetiser, the encoder timestamp, the optional audio level; the
   clock value read for abs_send_time is an input attached to every payload.
   `packet.serialize(...)` / `transport._send_rtp` are not repeated here: the model
   emits the packet that is handed to serialize (serialize/parse are C07's).
   struct.error of wrap_rtx is `Crash`.  No proofs here. *)
From Coq Require Import ZArith List Bool.
From AV Require Import Lib.Sx Lib.Bytes Lib.RtpX Gen.Utils Gen.RtpConst.
From AV Require Model.Rtp.
Import ListNotations.
Local Open Scope Z_scope.


Definition hist := list (Z * Rtp.rtp).

Fixpoint hget (h : hist) (k : Z) : option Rtp.rtp :=
  match h with
  | [] => None
  | (k', v) :: h' => if k =? k' then Some v else hget h' k
  end.

Fixpoint hremove (h : hist) (k : Z) : hist :=
  match h with
  | [] => []
  | (k', v) :: h' => if k =? k' then hremove h' k else (k', v) :: hremove h' k
  end.

Definition hset (h : hist) (k : Z) (v : Rtp.rtp) : hist := (k, v) :: hremove h k.

Record sender := mkSender {
  s_pt : Z;                    (* codec.payloadType *)
  s_ssrc : Z;                  (* _ssrc *)
  s_rtx_ssrc : Z;              (* _rtx_ssrc *)
  s_rtx_pt : option Z;         (* __rtx_payload_type *)
  s_mid : option bytes;        (* __mid (UTF-8) *)
  s_seq : Z;                   (* sequence_number of _run_rtp *)
  s_ts_origin : Z;             (* timestamp_origin of _run_rtp *)
  s_rtx_seq : Z;               (* __rtx_sequence_number *)
  s_hist : hist                (* __rtp_history *)
}.

Record eframe := mkEframe {
  ef_ts : Z;                           (* enc_frame.timestamp *)
  ef_audio : option Z;                 (* enc_frame.audio_level *)
  ef_payloads : list (bytes * Z)       (* payload, clock.current_ntp_time() read for it *)
}.

Definition set_seq_hist (s : sender) (sq : Z) (h : hist) : sender :=
  mkSender (s_pt s) (s_ssrc s) (s_rtx_ssrc s) (s_rtx_pt s) (s_mid s) sq (s_ts_origin s) (s_rtx_seq s) h.

Definition set_rtx_seq (s : sender) (x : Z) : sender :=
  mkSender (s_pt s) (s_ssrc s) (s_rtx_ssrc s) (s_rtx_pt s) (s_mid s) (s_seq s) (s_ts_origin s) x (s_hist s).

(* lines 378-393: the packet built for payload number i of n *)
Definition mk_packet (s : sender) (timestamp : Z) (audio : option Z) (n i : nat) (payload : bytes) (ntp : Z)
  : Rtp.rtp :=
  Rtp.mkRtp (if Nat.eqb i (n - 1) then 1 else 0) (s_pt s) (s_seq s) timestamp (s_ssrc s) []
          (Rtp.mkHext (Some (Z.land (Z.shiftr ntp 14) 16777215))
                    (match audio with Some a => Some (false, - a) | None => None end)
                    (s_mid s) None None None None)
          payload 0.

(* lines 377-407: `for i, payload in enumerate(enc_frame.payloads)` *)
Fixpoint send_payloads (s : sender) (timestamp : Z) (audio : option Z) (n i : nat) (pl : list (bytes * Z))
  : sender * list Rtp.rtp :=
  match pl with
  | [] => (s, [])
  | (payload, ntp) :: pl' =>
      let packet := mk_packet s timestamp audio n i payload ntp in
      let h := hset (s_hist s) (Rtp.sequence_number packet mod rtp_RTP_HISTORY_SIZE) packet in
      let s1 := set_seq_hist s (uint16_add (s_seq s) 1) h in
      let '(s2, out) := send_payloads s1 timestamp audio n (S i) pl' in
      (s2, packet :: out)
  end.

(* one iteration of the `while True` loop for an encoded frame (an empty payload list is
   the `enc_frame is None` case of _next_encoded_frame: nothing happens) *)
Definition send_frame (s : sender) (f : eframe) : sender * list Rtp.rtp :=
  let timestamp := uint32_add (s_ts_origin s) (ef_ts f) in
  send_payloads s timestamp (ef_audio f) (length (ef_payloads f)) 0 (ef_payloads f).

(* the history lookup of _retransmit, lines 336-337 *)
Definition lookup (s : sender) (sequence_number : Z) : option Rtp.rtp :=
  match hget (s_hist s) (sequence_number mod rtp_RTP_HISTORY_SIZE) with
  | Some packet => if Rtp.sequence_number packet =? sequence_number then Some packet else None
  | None => None
  end.

(* _retransmit, lines 332-349 *)
Definition retransmit (s : sender) (sequence_number : Z) : result (sender * list Rtp.rtp) :=
  match lookup s sequence_number with
  | Some packet =>
      match s_rtx_pt s with
      | Some pt =>
          do r <- Rtp.wrap_rtx packet pt (s_rtx_seq s) (s_rtx_ssrc s);
          Ok (set_rtx_seq s (uint16_add (s_rtx_seq s) 1), [r])
      | None => Ok (s, [packet])
      end
  | None => Ok (s, [])
  end.

(* `for seq in packet.lost: await self._retransmit(seq)` *)
Fixpoint handle_nack (s : sender) (lost : list Z) : result (sender * list Rtp.rtp) :=
  match lost with
  | [] => Ok (s, [])
  | x :: lost' =>
      do r1 <- retransmit s x;
      do r2 <- handle_nack (fst r1) lost';
      Ok (fst r2, snd r1 ++ snd r2)
  end.

Inductive op :=
| Frame (f : eframe)
| Nack (lost : list Z).

Inductive out :=
| Sent (l : list Rtp.rtp)        (* media packets of one frame *)
| Resent (l : list Rtp.rtp).     (* answers to one NACK *)

Definition step (s : sender) (o : op) : result (sender * out) :=
  match o with
  | Frame f => let '(s', l) := send_frame s f in Ok (s', Sent l)
  | Nack lost => do r <- handle_nack s lost; Ok (fst r, Resent (snd r))
  end.

Fixpoint run (s : sender) (ops : list op) : result (sender * list out) :=
  match ops with
  | [] => Ok (s, [])
  | o :: ops' =>
      do r <- step s o;
      do r' <- run (fst r) ops';
      Ok (fst r', snd r :: snd r')
  end.

(* the media packets of a run, in sending order *)
Definition media (outs : list out) : list Rtp.rtp :=
  flat_map (fun o => match o with Sent l => l | Resent _ => [] end) outs.

(* keeps the outputs produced before an exception (correspondence glue) *)
Fixpoint trace (s : sender) (ops : list op) : sender * list out * Z :=
  match ops with
  | [] => (s, [], 0)
  | o :: ops' =>
      match step s o with
      | Ok (s', x) => let '(s2, xs, e) := trace s' ops' in (s2, x :: xs, e)
      | ValueErr => (s, [], ERR_VALUE)
      | Crash => (s, [], ERR_CRASH)
      | OutOfFuel => (s, [], ERR_FUEL)
      end
  end.

(* ---- s-expression glue ---------------------------------------------------- *)
Definition optz_of_sx (x : sx) : option Z := sx_opt sx_z x.

Definition sender_of_sx (x : sx) : sender :=
  mkSender (sx_z (sx_nth x 0)) (sx_z (sx_nth x 1)) (sx_z (sx_nth x 2)) (optz_of_sx (sx_nth x 3))
           (sx_opt sx_zs (sx_nth x 4)) (sx_z (sx_nth x 5)) (sx_z (sx_nth x 6)) (sx_z (sx_nth x 7)) [].

Definition op_of_sx (x : sx) : op :=
  if sx_z (sx_nth x 0) =? 0 then
    Frame (mkEframe (sx_z (sx_nth x 1)) (optz_of_sx (sx_nth x 2))
                    (map (fun y => (sx_zs (sx_nth y 0), sx_z (sx_nth y 1))) (sx_l (sx_nth x 3))))
  else Nack (sx_zs (sx_nth x 1)).

Definition sx_of_out (o : out) : sx :=
  match o with
  | Sent l => L [A 0; L (map Rtp.sx_of_rtp l)]
  | Resent l => L [A 1; L (map Rtp.sx_of_rtp l)]
  end.

(* input: (sender ops); output: (status outs (seq rtx_seq ((key packet) ...))) *)
Definition main (x : sx) : sx :=
  let '(s, outs, e) := trace (sender_of_sx (sx_nth x 0)) (map op_of_sx (sx_l (sx_nth x 1))) in
  L [A e; L (map sx_of_out outs);
     L [A (s_seq s); A (s_rtx_seq s);
        L (map (fun kv => L [A (fst kv); Rtp.sx_of_rtp (snd kv)]) (s_hist s))]].
