(* Model of the close()/stop() handshakes of aiortc (property C19).

   An interleaving model of the handshake LOGIC only.  A configuration holds, per
   transceiver, the sender (rtcrtpsender.py: __started, the RTP and RTCP tasks and
   the started/exited asyncio.Events they set) and the receiver
   (rtcrtpreceiver.py: __started, RTCP task, decoder thread, end-of-stream
   sentinel for the track); per transport the DTLS state, the DTLS pump task
   `__run` and the `_task` reference (rtcdtlstransport.py start/stop/__run), the
   ICE state, the `_monitor` task, a start() in progress, the aioice connection
   (closed? consent task running?) (rtcicetransport.py start/stop/_monitor); the
   SCTP transport (rtcsctptransport.py start/stop/_set_state(CLOSED)); and of the
   peer connection the __isClosed future, the close() coroutine of the first
   caller (the remaining stop() calls of rtcpeerconnection.py close() and the
   await point inside the current one), later callers waiting for the future and
   the signalling state.

   One `ev` is one scheduler step of one party; `step` returns None when the
   event is not enabled.  The events are exactly the lifecycle events the
   harness observes on the real objects, so a recorded run of the
   implementation can be replayed (`replay`): trace inclusion.

   `fx = true`  : the repaired code (all theorems).
   `fx = false` : the code before the C19 repairs (the *_refuted theorems):
     - _run_rtcp of receiver/sender leaving its loop through an exception other
       than CancelledError does not set the `exited` event;
     - __connect starts senders / receivers / SCTP after close() has begun;
     - a negotiation call overtaken by close() still sets the signalling state;
     - stop() of a receiver that never started does not end its track;
     - RTCIceTransport.start() finishing after stop() overwrites the closed
       state and leaves aioice's consent task running; stop() does not signal the
       end of the remote candidates, so a start() still expecting candidates
       never returns.

   Modelling assumptions (not proved, observed by the harness): the ICE monitor
   task has registered its waiter before connection.close() completes (asyncio's
   FIFO ready queue; the monitor is created in state MWaiting); the behaviour of
   aioice's connect()/close()/consent task is the one transcribed in the fields
   i_cclosed / i_consent / i_candend; __connect is not a party of its own: the
   calls it makes are free events guarded the way __connect guards them.

   Every `await` is a possible scheduling point (an over-approximation of
   asyncio: an await on something already completed does not yield).  No proofs
   in this file. *)
From Coq Require Import ZArith List Bool Arith.
From AV Require Import Lib.Sx.
Import ListNotations.

(* ------------------------------------------------------------------ tasks *)
(* TCreated: ensure_future called, body not begun (started event unset)
   TRunning: body begun (started set), inside its loop
   TCancelling: cancel() requested, CancelledError not delivered yet
   TExited: task done, exited event set
   TFailed: task done, exited event NOT set (only with fx = false) *)
Inductive tstate := TNone | TCreated | TRunning | TCancelling | TExited | TFailed.

Definition started_set (t : tstate) : bool :=
  match t with TRunning | TCancelling | TExited | TFailed => true | _ => false end.
Definition exited_set (t : tstate) : bool :=
  match t with TExited => true | _ => false end.
(* Task.cancel(): no effect on a finished task *)
Definition cancel (t : tstate) : tstate :=
  match t with TRunning => TCancelling | TCreated => TCancelling | x => x end.

Record sender := mkS { s_started : bool; s_rtp : tstate; s_rtcp : tstate }.
(* r_dec: decoder thread alive; r_eos: the None sentinel was queued for the track *)
Record receiver := mkR { r_started : bool; r_rtcp : tstate; r_dec : bool; r_eos : bool }.
Record trx := mkT { t_s : sender; t_r : receiver; t_tp : nat }.

Inductive dstate := DNew | DConnecting | DConnected | DClosed | DFailed.
Inductive pstate := PNone | PRunning | PCancelling | PDone.
Inductive istate := INew | IChecking | ICompleted | IFailed | IClosed.
Inductive mstate := MNone | MWaiting | MDone.

Record transport := mkTp {
  d_state : dstate;      (* RTCDtlsTransport._state *)
  d_pump : pstate;       (* the task running RTCDtlsTransport.__run *)
  d_ref : bool;          (* RTCDtlsTransport._task is not None *)
  i_state : istate;      (* RTCIceTransport.state *)
  i_mon : mstate;        (* the task running RTCIceTransport._monitor *)
  i_starting : bool;     (* start() is awaiting connection.connect() *)
  i_cclosed : bool;      (* aioice connection closed *)
  i_consent : bool;      (* aioice consent-check task running *)
  i_candend : bool       (* end of remote candidates signalled to aioice *)
}.

Record sctp := mkSc {
  sc_tp : nat;
  sc_started : bool;
  sc_stopped : bool;     (* stop() ran _set_state(CLOSED) *)
  sc_timers : bool;      (* a T1/T2/T3 handle may be armed *)
  sc_chans : nat         (* data channels that are not closed *)
}.

(* ------------------------------------------------------------------ close() *)
Inductive op :=
| ORecvStop (i : nat)     (* transceiver.stop(): receiver.stop() *)
| OSendStop (i : nat)     (*                      sender.stop()   *)
| OSctpStop
| ODtlsStop (t : nat)
| OIceStop (t : nat).

(* await point inside the current stop() *)
Inductive sub :=
| SIdle          (* not called yet *)
| SDone          (* about to return *)
| SWaitStarted   (* awaiting the started event(s) *)
| SCancel1       (* sender: rtp task cancelled, rtcp task next *)
| SWaitExited    (* awaiting the exited event(s) *)
| SNeedCancel    (* dtls: _task.cancel() next *)
| SIceClosing    (* awaiting connection.close() *)
| SWaitMon.      (* awaiting the monitor task *)

Inductive fut := FNone | FPending | FDone.

Record cfg := mkCfg {
  c_trx : list trx;
  c_tps : list transport;
  c_sctp : option sctp;
  c_closed : fut;                              (* __isClosed *)
  c_main : option (nat * list op * sub);       (* first caller: id, remaining stops, await point *)
  c_waiters : list nat;                        (* later callers awaiting __isClosed *)
  c_sig_closed : bool                          (* signalingState == "closed" *)
}.

Inductive kind := KSRtp | KSRtcp | KRRtcp | KPump.

Inductive ev :=
(* what __connect does (any order the guards allow) *)
| EIceStart (t : nat)
| EIceStartRet (t : nat) (ok : bool)
| EDtlsStart (t : nat)
| EDtlsStartRet (t : nat) (ok : bool)
| ESend (i : nat)
| EReceive (i : nat)
| ESctpStart
(* background tasks *)
| ETaskBegin (k : kind) (i : nat)
| ETaskEnd (k : kind) (i : nat) (exited : bool)   (* body finished; was the exited event set? *)
| EPumpEnd (t : nat) (how : nat)                  (* 0 cancelled, 1 ConnectionError, 2 other exception *)
| EMonEnd (t : nat)
(* remote side / application *)
| ERemoteBye (i : nat)
| EIceLost (t : nat)
| ENegoSig                                        (* a negotiation call sets the signalling state *)
| EChanNew
| ESctpDown                                       (* association closed by the peer / by time-outs *)
| ECandEnd (t : nat)                              (* end of the remote candidates *)
(* close() *)
| ECloseCall (id : nat)
| ECloseRet (id : nat)
| EStopCall (o : op)
| EStopRet (o : op)
| ECancel (k : kind) (i : nat)
| EIceConnClosed (t : nat).

(* ------------------------------------------------------------------ helpers *)
Fixpoint upd {A} (l : list A) (i : nat) (x : A) : list A :=
  match l, i with
  | [], _ => []
  | _ :: l', O => x :: l'
  | y :: l', S i' => y :: upd l' i' x
  end.

Definition set_trx (c : cfg) (i : nat) (x : trx) : cfg :=
  mkCfg (upd (c_trx c) i x) (c_tps c) (c_sctp c) (c_closed c) (c_main c) (c_waiters c) (c_sig_closed c).
Definition set_tp (c : cfg) (t : nat) (x : transport) : cfg :=
  mkCfg (c_trx c) (upd (c_tps c) t x) (c_sctp c) (c_closed c) (c_main c) (c_waiters c) (c_sig_closed c).
Definition set_sctp (c : cfg) (s : option sctp) : cfg :=
  mkCfg (c_trx c) (c_tps c) s (c_closed c) (c_main c) (c_waiters c) (c_sig_closed c).
Definition set_main (c : cfg) (m : option (nat * list op * sub)) : cfg :=
  mkCfg (c_trx c) (c_tps c) (c_sctp c) (c_closed c) m (c_waiters c) (c_sig_closed c).

Definition with_s (x : trx) (s : sender) : trx := mkT s (t_r x) (t_tp x).
Definition with_r (x : trx) (r : receiver) : trx := mkT (t_s x) r (t_tp x).

Definition is_open (c : cfg) : bool := match c_closed c with FNone => true | _ => false end.
Definition dconnected (tp : transport) : bool := match d_state tp with DConnected => true | _ => false end.

Definition op_eqb (a b : op) : bool :=
  match a, b with
  | ORecvStop i, ORecvStop j => Nat.eqb i j
  | OSendStop i, OSendStop j => Nat.eqb i j
  | OSctpStop, OSctpStop => true
  | ODtlsStop i, ODtlsStop j => Nat.eqb i j
  | OIceStop i, OIceStop j => Nat.eqb i j
  | _, _ => false
  end.

(* the stop() calls of RTCPeerConnection.close(), in order (rtcpeerconnection.py close()) *)
Fixpoint plan_trx (l : list trx) (i : nat) : list op :=
  match l with [] => [] | _ :: l' => ORecvStop i :: OSendStop i :: plan_trx l' (S i) end.
Fixpoint plan_tps (l : list trx) : list op :=
  match l with [] => [] | x :: l' => ODtlsStop (t_tp x) :: OIceStop (t_tp x) :: plan_tps l' end.
Definition plan (c : cfg) : list op :=
  plan_trx (c_trx c) 0
  ++ (match c_sctp c with Some _ => [OSctpStop] | None => [] end)
  ++ plan_tps (c_trx c)
  ++ (match c_sctp c with Some s => [ODtlsStop (sc_tp s); OIceStop (sc_tp s)] | None => [] end).

(* RTCRtpReceiver.__stop_decoder: queue the sentinel, join the thread *)
Definition stop_decoder (r : receiver) : receiver :=
  if r_dec r then mkR (r_started r) (r_rtcp r) false true else r.

(* RTCDtlsTransport.__run, `except ConnectionError`: every receiver registered with
   the transport's router gets _handle_disconnect() *)
Definition disconnect_all (l : list trx) (t : nat) : list trx :=
  map (fun x => if Nat.eqb (t_tp x) t then with_r x (stop_decoder (t_r x)) else x) l.

(* a task body finishes.  rtcp = true for the two _run_rtcp loops *)
Definition task_end (fx rtcp : bool) (st : tstate) (exited : bool) : option tstate :=
  match st with
  | TRunning =>
      if rtcp then
        (* only an unexpected exception leaves the RTCP loop of a task nobody cancelled *)
        if fx then (if exited then Some TExited else None)
        else (if exited then None else Some TFailed)
      else (if exited then Some TExited else None)   (* _run_rtp: catch-all, always sets the event *)
  | TCancelling =>
      if exited then Some TExited
      else if rtcp && negb fx then Some TFailed       (* sender: the BYE raised *)
      else None
  | _ => None
  end.

Definition pop_main (c : cfg) : option cfg :=
  match c_main c with
  | Some (id, _ :: todo, _) => Some (set_main c (Some (id, todo, SIdle)))
  | _ => None
  end.
Definition set_sub (c : cfg) (s : sub) : cfg :=
  match c_main c with
  | Some (id, todo, _) => set_main c (Some (id, todo, s))
  | None => c
  end.
(* the current stop() of the close() coroutine *)
Definition head (c : cfg) : option (op * sub) :=
  match c_main c with
  | Some (_, o :: _, s) => Some (o, s)
  | _ => None
  end.

Definition stop_call (fx : bool) (c : cfg) (o : op) : option cfg :=
  match o with
  | ORecvStop i =>
      match nth_error (c_trx c) i with
      | None => None
      | Some x =>
          let r := t_r x in
          if r_started r then
            (* unregister, __stop_decoder(), then await __rtcp_started.wait() *)
            Some (set_sub (set_trx c i (with_r x (stop_decoder r))) SWaitStarted)
          else
            Some (set_sub (set_trx c i (with_r x (mkR (r_started r) (r_rtcp r) (r_dec r) (r_eos r || fx)))) SDone)
      end
  | OSendStop i =>
      match nth_error (c_trx c) i with
      | None => None
      | Some x => Some (set_sub c (if s_started (t_s x) then SWaitStarted else SDone))
      end
  | OSctpStop =>
      match c_sctp c with
      | None => None
      | Some s => Some (set_sub (set_sctp c (Some (mkSc (sc_tp s) (sc_started s) true false 0))) SDone)
      end
  | ODtlsStop t =>
      match nth_error (c_tps c) t with
      | None => None
      | Some tp => Some (set_sub c (if d_ref tp then SNeedCancel else SDone))
      end
  | OIceStop t =>
      match nth_error (c_tps c) t with
      | None => None
      | Some tp =>
          match i_state tp with
          | IClosed => Some (set_sub c SDone)
          | _ => Some (set_sub (set_tp c t (mkTp (d_state tp) (d_pump tp) (d_ref tp) IClosed (i_mon tp)
                                               (i_starting tp) (i_cclosed tp) (i_consent tp) (i_candend tp || fx))) SIceClosing)
          end
      end
  end.

Definition stop_ret (c : cfg) (o : op) (s : sub) : bool :=
  match s with
  | SDone => true
  | SWaitExited =>
      match o with
      | ORecvStop i => match nth_error (c_trx c) i with
                       | Some x => exited_set (r_rtcp (t_r x)) | None => false end
      | OSendStop i => match nth_error (c_trx c) i with
                       | Some x => exited_set (s_rtp (t_s x)) && exited_set (s_rtcp (t_s x)) | None => false end
      | _ => false
      end
  | SWaitMon =>
      match o with
      | OIceStop t => match nth_error (c_tps c) t with
                      | Some tp => match i_mon tp with MDone => true | _ => false end
                      | None => false end
      | _ => false
      end
  | _ => false
  end.

Definition do_cancel (c : cfg) (k : kind) (i : nat) : option cfg :=
  match head c, k with
  | Some (ORecvStop j, SWaitStarted), KRRtcp =>
      if Nat.eqb i j then
        match nth_error (c_trx c) i with
        | Some x =>
            let r := t_r x in
            if started_set (r_rtcp r)
            then Some (set_sub (set_trx c i (with_r x (mkR (r_started r) (cancel (r_rtcp r)) (r_dec r) (r_eos r)))) SWaitExited)
            else None
        | None => None
        end
      else None
  | Some (OSendStop j, SWaitStarted), KSRtp =>
      if Nat.eqb i j then
        match nth_error (c_trx c) i with
        | Some x =>
            let s := t_s x in
            if started_set (s_rtp s) && started_set (s_rtcp s)
            then Some (set_sub (set_trx c i (with_s x (mkS (s_started s) (cancel (s_rtp s)) (s_rtcp s)))) SCancel1)
            else None
        | None => None
        end
      else None
  | Some (OSendStop j, SCancel1), KSRtcp =>
      if Nat.eqb i j then
        match nth_error (c_trx c) i with
        | Some x =>
            let s := t_s x in
            Some (set_sub (set_trx c i (with_s x (mkS (s_started s) (s_rtp s) (cancel (s_rtcp s))))) SWaitExited)
        | None => None
        end
      else None
  | Some (ODtlsStop j, SNeedCancel), KPump =>
      if Nat.eqb i j then
        match nth_error (c_tps c) i with
        | Some tp =>
            Some (set_sub (set_tp c i (mkTp (d_state tp)
                                            (match d_pump tp with PRunning => PCancelling | p => p end)
                                            false (i_state tp) (i_mon tp) (i_starting tp) (i_cclosed tp) (i_consent tp) (i_candend tp))) SDone)
        | None => None
        end
      else None
  | _, _ => None
  end.

Definition step (fx : bool) (c : cfg) (e : ev) : option cfg :=
  match e with
  | EIceStart t =>
      match nth_error (c_tps c) t with
      | Some tp =>
          match i_state tp, i_mon tp with
          | IClosed, _ => None                  (* InvalidStateError *)
          | _, MNone =>
              Some (set_tp c t (mkTp (d_state tp) (d_pump tp) (d_ref tp) IChecking MWaiting true
                                     (i_cclosed tp) (i_consent tp) (i_candend tp)))
          | _, _ => None                        (* a later start() only waits for the first *)
          end
      | None => None
      end
  | EIceStartRet t ok =>
      match nth_error (c_tps c) t with
      | Some tp =>
          (* connect() fails only once no more remote candidates are expected *)
          if i_starting tp && (ok || i_candend tp) then
            let closed := match i_state tp with IClosed => true | _ => false end in
            let st := if closed && fx then IClosed else if ok then ICompleted else IFailed in
            (* connect() returning normally has launched the consent task; the repaired
               start() closes the connection again when stop() ran meanwhile *)
            let consent := if ok then negb (closed && fx) else i_consent tp in
            Some (set_tp c t (mkTp (d_state tp) (d_pump tp) (d_ref tp) st (i_mon tp) false (i_cclosed tp) consent (i_candend tp)))
          else None
      | None => None
      end
  | EDtlsStart t =>
      match nth_error (c_tps c) t with
      | Some tp =>
          match d_state tp with
          | DNew => Some (set_tp c t (mkTp DConnecting (d_pump tp) (d_ref tp) (i_state tp) (i_mon tp)
                                           (i_starting tp) (i_cclosed tp) (i_consent tp) (i_candend tp)))
          | _ => None
          end
      | None => None
      end
  | EDtlsStartRet t ok =>
      match nth_error (c_tps c) t with
      | Some tp =>
          match d_state tp with
          | DConnecting =>
              if ok then Some (set_tp c t (mkTp DConnected PRunning true (i_state tp) (i_mon tp)
                                                (i_starting tp) (i_cclosed tp) (i_consent tp) (i_candend tp)))
              else Some (set_tp c t (mkTp DFailed (d_pump tp) (d_ref tp) (i_state tp) (i_mon tp)
                                          (i_starting tp) (i_cclosed tp) (i_consent tp) (i_candend tp)))
          | _ => None
          end
      | None => None
      end
  | ESend i =>
      match nth_error (c_trx c) i with
      | Some x =>
          match nth_error (c_tps c) (t_tp x) with
          | Some tp =>
              if dconnected tp && (negb fx || is_open c) then
                if s_started (t_s x) then Some c
                else Some (set_trx c i (with_s x (mkS true TCreated TCreated)))
              else None
          | None => None
          end
      | None => None
      end
  | EReceive i =>
      match nth_error (c_trx c) i with
      | Some x =>
          match nth_error (c_tps c) (t_tp x) with
          | Some tp =>
              if dconnected tp && (negb fx || is_open c) then
                if r_started (t_r x) then Some c
                else Some (set_trx c i (with_r x (mkR true TCreated true (r_eos (t_r x)))))
              else None
          | None => None
          end
      | None => None
      end
  | ESctpStart =>
      match c_sctp c with
      | Some s =>
          match nth_error (c_tps c) (sc_tp s) with
          | Some tp =>
              if dconnected tp && (negb fx || is_open c) then
                if sc_started s then Some c
                else Some (set_sctp c (Some (mkSc (sc_tp s) true (sc_stopped s) true (sc_chans s))))
              else None
          | None => None
          end
      | None => None
      end
  | ETaskBegin k i =>
      match nth_error (c_trx c) i with
      | Some x =>
          match k with
          | KSRtp => match s_rtp (t_s x) with
                     | TCreated => Some (set_trx c i (with_s x (mkS (s_started (t_s x)) TRunning (s_rtcp (t_s x)))))
                     | _ => None end
          | KSRtcp => match s_rtcp (t_s x) with
                      | TCreated => Some (set_trx c i (with_s x (mkS (s_started (t_s x)) (s_rtp (t_s x)) TRunning)))
                      | _ => None end
          | KRRtcp => match r_rtcp (t_r x) with
                      | TCreated => Some (set_trx c i (with_r x (mkR (r_started (t_r x)) TRunning (r_dec (t_r x)) (r_eos (t_r x)))))
                      | _ => None end
          | KPump => None
          end
      | None => None
      end
  | ETaskEnd k i ex =>
      match nth_error (c_trx c) i with
      | Some x =>
          match k with
          | KSRtp => match task_end fx false (s_rtp (t_s x)) ex with
                     | Some st => Some (set_trx c i (with_s x (mkS (s_started (t_s x)) st (s_rtcp (t_s x)))))
                     | None => None end
          | KSRtcp => match task_end fx true (s_rtcp (t_s x)) ex with
                      | Some st => Some (set_trx c i (with_s x (mkS (s_started (t_s x)) (s_rtp (t_s x)) st)))
                      | None => None end
          | KRRtcp => match task_end fx true (r_rtcp (t_r x)) ex with
                      | Some st => Some (set_trx c i (with_r x (mkR (r_started (t_r x)) st (r_dec (t_r x)) (r_eos (t_r x)))))
                      | None => None end
          | KPump => None
          end
      | None => None
      end
  | EPumpEnd t how =>
      match nth_error (c_tps c) t with
      | Some tp =>
          let fin := mkTp DClosed PDone (d_ref tp) (i_state tp) (i_mon tp) (i_starting tp) (i_cclosed tp) (i_consent tp) (i_candend tp) in
          match d_pump tp, how with
          | PCancelling, O => Some (set_tp c t fin)
          | PRunning, S O =>
              let c1 := set_tp c t fin in
              Some (mkCfg (disconnect_all (c_trx c1) t) (c_tps c1) (c_sctp c1) (c_closed c1) (c_main c1)
                          (c_waiters c1) (c_sig_closed c1))
          | PRunning, S (S O) => Some (set_tp c t fin)
          | _, _ => None
          end
      | None => None
      end
  | EMonEnd t =>
      match nth_error (c_tps c) t with
      | Some tp =>
          match i_mon tp with
          | MWaiting =>
              if i_cclosed tp then
                Some (set_tp c t (mkTp (d_state tp) (d_pump tp) (d_ref tp)
                                       (match i_state tp with ICompleted => IFailed | s => s end)
                                       MDone (i_starting tp) (i_cclosed tp) (i_consent tp) (i_candend tp)))
              else None
          | _ => None
          end
      | None => None
      end
  | ERemoteBye i =>
      match nth_error (c_trx c) i with
      | Some x => Some (set_trx c i (with_r x (stop_decoder (t_r x))))
      | None => None
      end
  | EIceLost t =>
      match nth_error (c_tps c) t with
      | Some tp =>
          if i_consent tp then
            Some (set_tp c t (mkTp (d_state tp) (d_pump tp) (d_ref tp) (i_state tp) (i_mon tp)
                                   (i_starting tp) true false (i_candend tp)))
          else None
      | None => None
      end
  | ENegoSig =>
      if negb fx || is_open c then
        Some (mkCfg (c_trx c) (c_tps c) (c_sctp c) (c_closed c) (c_main c) (c_waiters c) false)
      else None
  | EChanNew =>
      match c_sctp c with
      | Some s =>
          (* createDataChannel asserts the connection is open; an incoming channel needs a live association *)
          if is_open c || negb (sc_stopped s) then
            Some (set_sctp c (Some (mkSc (sc_tp s) (sc_started s) (sc_stopped s) (sc_timers s) (S (sc_chans s)))))
          else None
      | None => None
      end
  | ESctpDown =>
      match c_sctp c with
      | Some s => Some (set_sctp c (Some (mkSc (sc_tp s) (sc_started s) true false 0)))
      | None => None
      end
  | ECandEnd t =>
      match nth_error (c_tps c) t with
      | Some tp => Some (set_tp c t (mkTp (d_state tp) (d_pump tp) (d_ref tp) (i_state tp) (i_mon tp)
                                          (i_starting tp) (i_cclosed tp) (i_consent tp) true))
      | None => None
      end
  | ECloseCall id =>
      match c_closed c with
      | FNone =>
          Some (mkCfg (c_trx c) (c_tps c) (c_sctp c) FPending (Some (id, plan c, SIdle)) (c_waiters c) true)
      | _ =>
          Some (mkCfg (c_trx c) (c_tps c) (c_sctp c) (c_closed c) (c_main c) (id :: c_waiters c) (c_sig_closed c))
      end
  | ECloseRet id =>
      match c_main c with
      | Some (id', [], SIdle) =>
          if Nat.eqb id id' then
            Some (mkCfg (c_trx c) (c_tps c) (c_sctp c) FDone None (c_waiters c) (c_sig_closed c))
          else None
      | _ =>
          match c_closed c with
          | FDone =>
              if existsb (Nat.eqb id) (c_waiters c) then
                Some (mkCfg (c_trx c) (c_tps c) (c_sctp c) (c_closed c) (c_main c)
                            (filter (fun x => negb (Nat.eqb id x)) (c_waiters c)) (c_sig_closed c))
              else None
          | _ => None
          end
      end
  | EStopCall o =>
      match head c with
      | Some (o', SIdle) => if op_eqb o o' then stop_call fx c o else None
      | _ => None
      end
  | EStopRet o =>
      match head c with
      | Some (o', s) => if op_eqb o o' && stop_ret c o s then pop_main c else None
      | None => None
      end
  | ECancel k i => do_cancel c k i
  | EIceConnClosed t =>
      match head c with
      | Some (OIceStop t', SIceClosing) =>
          if Nat.eqb t t' then
            match nth_error (c_tps c) t with
            | Some tp =>
                Some (set_sub (set_tp c t (mkTp (d_state tp) (d_pump tp) (d_ref tp) (i_state tp) (i_mon tp)
                                                (i_starting tp) true false (i_candend tp)))
                              (match i_mon tp with MNone => SDone | _ => SWaitMon end))
            | None => None
            end
          else None
      | _ => None
      end
  end.

Fixpoint run (fx : bool) (c : cfg) (l : list ev) : option cfg :=
  match l with
  | [] => Some c
  | e :: l' => match step fx c e with Some c' => run fx c' l' | None => None end
  end.

(* ------------------------------------------------------------------ measure *)
Definition op_cost (o : op) : nat :=
  match o with ORecvStop _ => 5 | OSendStop _ => 8 | OSctpStop => 2 | ODtlsStop _ => 3 | OIceStop _ => 4 end.
Definition begin_cost (t : tstate) : nat := match t with TNone | TCreated => 1 | _ => 0 end.
Definition end_cost (t : tstate) : nat :=
  match t with TNone | TCreated | TRunning | TCancelling => 1 | _ => 0 end.
Definition mon_cost (m : mstate) : nat := match m with MNone | MWaiting => 1 | MDone => 0 end.

(* steps the current stop() still needs (its own and those of the tasks it awaits) *)
Definition residual (c : cfg) (o : op) (s : sub) : nat :=
  match s with
  | SIdle => op_cost o
  | SDone => 1
  | _ =>
    match o with
    | ORecvStop i =>
        match nth_error (c_trx c) i with
        | Some x =>
            match s with
            | SWaitStarted => begin_cost (r_rtcp (t_r x)) + 3
            | SWaitExited => end_cost (r_rtcp (t_r x)) + 1
            | _ => 1
            end
        | None => 1
        end
    | OSendStop i =>
        match nth_error (c_trx c) i with
        | Some x =>
            match s with
            | SWaitStarted => begin_cost (s_rtp (t_s x)) + begin_cost (s_rtcp (t_s x)) + 5
            | SCancel1 => end_cost (s_rtp (t_s x)) + 3
            | SWaitExited => end_cost (s_rtp (t_s x)) + end_cost (s_rtcp (t_s x)) + 1
            | _ => 1
            end
        | None => 1
        end
    | OSctpStop => 1
    | ODtlsStop _ => match s with SNeedCancel => 2 | _ => 1 end
    | OIceStop t =>
        match s with
        | SIceClosing => 3
        | SWaitMon => match nth_error (c_tps c) t with Some tp => mon_cost (i_mon tp) + 1 | None => 1 end
        | _ => 1
        end
    end
  end.

Definition sum_cost (l : list op) : nat := fold_right (fun o n => op_cost o + n) 0 l.

Definition measure (c : cfg) : nat :=
  match c_main c with
  | None => 0
  | Some (_, [], _) => 1
  | Some (_, o :: todo, s) => residual c o s + sum_cost todo + 1
  end.

(* is `e` a step of the close() coroutine or of the party it is blocked on? *)
Definition kind_eqb (a b : kind) : bool :=
  match a, b with KSRtp, KSRtp | KSRtcp, KSRtcp | KRRtcp, KRRtcp | KPump, KPump => true | _, _ => false end.

Definition helps (c : cfg) (e : ev) : bool :=
  match c_main c with
  | None => false
  | Some (id, todo, s) =>
      match e with
      | EStopCall _ | EStopRet _ | ECancel _ _ | EIceConnClosed _ => true
      | ECloseRet id' => match todo, s with [], SIdle => Nat.eqb id id' | _, _ => false end
      | ETaskBegin k i =>
          match todo, s with
          | ORecvStop j :: _, SWaitStarted => kind_eqb k KRRtcp && Nat.eqb i j
          | OSendStop j :: _, SWaitStarted => (kind_eqb k KSRtp || kind_eqb k KSRtcp) && Nat.eqb i j
          | _, _ => false
          end
      | ETaskEnd k i _ =>
          match todo, s with
          | ORecvStop j :: _, SWaitExited => kind_eqb k KRRtcp && Nat.eqb i j
          | OSendStop j :: _, SWaitExited => (kind_eqb k KSRtp || kind_eqb k KSRtcp) && Nat.eqb i j
          | _, _ => false
          end
      | EMonEnd t =>
          match todo, s with
          | OIceStop j :: _, SWaitMon => Nat.eqb t j
          | _, _ => false
          end
      | _ => false
      end
  end.

(* number of helping steps along a run *)
Fixpoint helped (fx : bool) (c : cfg) (l : list ev) : nat :=
  match l with
  | [] => 0
  | e :: l' =>
      match step fx c e with
      | Some c' => (if helps c e then 1 else 0) + helped fx c' l'
      | None => 0
      end
  end.

(* ------------------------------------------------------------------ initial configurations *)
Definition trx0 (t : nat) : trx := mkT (mkS false TNone TNone) (mkR false TNone false false) t.
Definition tp0 : transport := mkTp DNew PNone false INew MNone false false false false.
Definition init (tps : list nat) (ntp : nat) (sc : option nat) : cfg :=
  mkCfg (map trx0 tps) (repeat tp0 ntp)
        (match sc with Some t => Some (mkSc t false false false 0) | None => None end)
        FNone None [] false.

(* ------------------------------------------------------------------ s-expression glue *)
Definition kind_of_z (z : Z) : kind :=
  if Z.eqb z 0 then KSRtp else if Z.eqb z 1 then KSRtcp else if Z.eqb z 2 then KRRtcp else KPump.
Definition op_of_z (z : Z) (i : nat) : op :=
  if Z.eqb z 0 then ORecvStop i else if Z.eqb z 1 then OSendStop i else if Z.eqb z 2 then OSctpStop
  else if Z.eqb z 3 then ODtlsStop i else OIceStop i.

Definition ev_of_sx (x : sx) : ev :=
  let t := sx_z (sx_nth x 0) in
  let a := Z.to_nat (sx_z (sx_nth x 1)) in
  let b := sx_z (sx_nth x 2) in
  let bb := negb (Z.eqb b 0) in
  if Z.eqb t 0 then EIceStart a
  else if Z.eqb t 1 then EIceStartRet a bb
  else if Z.eqb t 2 then EDtlsStart a
  else if Z.eqb t 3 then EDtlsStartRet a bb
  else if Z.eqb t 4 then ESend a
  else if Z.eqb t 5 then EReceive a
  else if Z.eqb t 6 then ESctpStart
  else if Z.eqb t 7 then ETaskBegin (kind_of_z b) a
  else if Z.eqb t 8 then ETaskEnd (kind_of_z b) a (sx_b (sx_nth x 3))
  else if Z.eqb t 9 then EPumpEnd a (Z.to_nat b)
  else if Z.eqb t 10 then EMonEnd a
  else if Z.eqb t 11 then ERemoteBye a
  else if Z.eqb t 12 then EIceLost a
  else if Z.eqb t 13 then ENegoSig
  else if Z.eqb t 14 then EChanNew
  else if Z.eqb t 15 then ECloseCall a
  else if Z.eqb t 16 then ECloseRet a
  else if Z.eqb t 17 then EStopCall (op_of_z b a)
  else if Z.eqb t 18 then EStopRet (op_of_z b a)
  else if Z.eqb t 19 then ECancel (kind_of_z b) a
  else if Z.eqb t 20 then EIceConnClosed a
  else if Z.eqb t 21 then ESctpDown
  else ECandEnd a.

(* replay a recorded trace; returns the number of accepted events and the last configuration *)
Fixpoint replay (fx : bool) (c : cfg) (l : list ev) (n : Z) : Z * cfg :=
  match l with
  | [] => (n, c)
  | e :: l' => match step fx c e with
               | Some c' => replay fx c' l' (n + 1)%Z
               | None => (n, c)
               end
  end.

Definition z_of_tstate (t : tstate) : Z :=
  match t with TNone => 0 | TCreated => 1 | TRunning => 2 | TCancelling => 2 | TExited => 3 | TFailed => 4 end%Z.
Definition z_of_dstate (d : dstate) : Z :=
  match d with DNew => 0 | DConnecting => 1 | DConnected => 2 | DClosed => 3 | DFailed => 4 end%Z.
Definition z_of_pstate (p : pstate) : Z :=
  match p with PNone => 0 | PRunning => 2 | PCancelling => 2 | PDone => 3 end%Z.
Definition z_of_istate (i : istate) : Z :=
  match i with INew => 0 | IChecking => 1 | ICompleted => 2 | IFailed => 3 | IClosed => 4 end%Z.
Definition z_of_mstate (m : mstate) : Z := match m with MNone => 0 | MWaiting => 2 | MDone => 3 end%Z.
Definition z_of_fut (f : fut) : Z := match f with FNone => 0 | FPending => 1 | FDone => 2 end%Z.

Definition sx_of_trx (x : trx) : sx :=
  L [A (z_of_tstate (s_rtp (t_s x))); A (z_of_tstate (s_rtcp (t_s x))); A (z_of_tstate (r_rtcp (t_r x)));
     of_b (r_dec (t_r x))].
Definition sx_of_tp (tp : transport) : sx :=
  L [A (z_of_dstate (d_state tp)); A (z_of_pstate (d_pump tp)); A (z_of_istate (i_state tp));
     A (z_of_mstate (i_mon tp)); of_b (i_consent tp); of_b (i_starting tp)].
Definition sx_of_cfg (c : cfg) : sx :=
  L [A (z_of_fut (c_closed c)); of_b (c_sig_closed c);
     L (map sx_of_trx (c_trx c)); L (map sx_of_tp (c_tps c));
     match c_sctp c with
     | Some s => L [of_b (sc_started s); of_b (sc_stopped s); A (if sc_stopped s then Z.of_nat (sc_chans s) else 0%Z)]
     | None => L []
     end;
     A (Z.of_nat (length (c_waiters c)));
     A (Z.of_nat (measure c))].

(* one peer connection: (fx, transports of the transceivers, number of transports,
   optional sctp transport, trace) -> (events, accepted events, final configuration) *)
Definition main_one (x : sx) : sx :=
  let fx := sx_b (sx_nth x 0) in
  let tps := map Z.to_nat (sx_zs (sx_nth x 1)) in
  let ntp := Z.to_nat (sx_z (sx_nth x 2)) in
  let sc := sx_opt (fun s => Z.to_nat (sx_z s)) (sx_nth x 3) in
  let tr := map ev_of_sx (sx_l (sx_nth x 4)) in
  let '(n, c) := replay fx (init tps ntp sc) tr 0%Z in
  L [A (Z.of_nat (length tr)); A n; sx_of_cfg c].

(* input: list of peer connections *)
Definition main (x : sx) : sx := L (map main_one (sx_l x)).
