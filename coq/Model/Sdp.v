(* Model of aiortc.sdp (sdp.py) on STRUCTURED LINES.

   Strings are lists of Unicode code points (`str := list Z`): the model needs
   more than equality on them (mimeType = kind + "/" + name and its inverse
   `name`, the literal "None" printed for a missing origin, the truthiness of
   "" in `if self.msid:`), so opaque ids would not do.

   One constructor of `line` per SDP line kind, with the fields ALREADY
   tokenised: `split`, `re.match`, `int()`, `ipaddress` and `parse_attr` live in
   the lexer `text <-> list line` of harness/props/c09.py, which is validated by
   the correspondence run, not proved.  Conventions of that lexer:
   * a line whose own processing raises whatever the parser state is becomes
     `Lerr1 e` (raised by the first loop over a media section / by the session
     loop) or `Lerr2 e` (a=fmtp / a=rtcp-fb, raised by the second loop);
     an m= line not matching the regular expression is `Lmerr Crash`;
   * where the exception depends on parser state the line keeps the pieces
     (`Lrtpmap .. ch`, `Lfmtp pt None`, `Lrtcp_fb t None`, `Lsetup`, `Lm` with
     non-integer formats, `Lcandidate` with fewer than 8 tokens) and the model
     raises;
   * an address is a pair (text, version) where version = 4 / 6 is what
     `ipaddress.ip_address(text).version` returns and 0 means it raises
     ValueError (oracle field computed by the harness, see DESIGN section 3);
   * lines before the first m= line are lexed with the session table (other
     attributes become `Lother`), the rest with the media table.

   The model describes the REPAIRED code (worktree commits "a=rtcp-mux even
   when there is no a=rtcp line", "first a=rtpmap of a payload type wins" and
   "m= line with a blank format list is rejected").
   No proofs here. *)
From Coq Require Import ZArith List Bool.
From AV Require Import Lib.Sx.
Import ListNotations.
Local Open Scope Z_scope.

Definition str := list Z.

Fixpoint str_eqb (a b : str) : bool :=
  match a, b with
  | [], [] => true
  | x :: a', y :: b' => Z.eqb x y && str_eqb a' b'
  | _, _ => false
  end.

(* "…" literals *)
Definition s_audio : str := [97;117;100;105;111].
Definition s_video : str := [118;105;100;101;111].
Definition s_None : str := [78;111;110;101].
Definition s_typ : str := [116;121;112].
Definition s_raddr : str := [114;97;100;100;114].
Definition s_rport : str := [114;112;111;114;116].
Definition s_tcptype : str := [116;99;112;116;121;112;101].
Definition s_cname : str := [99;110;97;109;101].
Definition s_msid : str := [109;115;105;100].
Definition s_mslabel : str := [109;115;108;97;98;101;108].
Definition s_label : str := [108;97;98;101;108].
Definition s_auto : str := [97;117;116;111].
Definition s_client : str := [99;108;105;101;110;116].
Definition s_server : str := [115;101;114;118;101;114].
Definition s_actpass : str := [97;99;116;112;97;115;115].
Definition s_active : str := [97;99;116;105;118;101].
Definition s_passive : str := [112;97;115;115;105;118;101].
Definition SLASH : Z := 47.

(* rtp.FORBIDDEN_PAYLOAD_TYPES = range(72, 77) (checked by value every run) *)
Definition forbidden_pt (z : Z) : bool := (72 <=? z) && (z <? 77).

(* ---- outcomes -------------------------------------------------------------- *)
Inductive result (A : Type) : Type :=
| Ok (a : A)
| ValueErr          (* ValueError *)
| Crash.            (* any other exception: AssertionError, KeyError, IndexError,
                       AttributeError, StopIteration *)
Arguments Ok {A} a.
Arguments ValueErr {A}.
Arguments Crash {A}.

Inductive err := EValue | ECrash.
Definition raise {A} (e : err) : result A := match e with EValue => ValueErr | ECrash => Crash end.

Definition bind {A B} (r : result A) (f : A -> result B) : result B :=
  match r with Ok a => f a | ValueErr => ValueErr | Crash => Crash end.

(* a `for` loop whose body may raise *)
Fixpoint rfold {A B} (f : A -> B -> result A) (l : list B) (a : A) : result A :=
  match l with
  | [] => Ok a
  | x :: r => bind (f a x) (rfold f r)
  end.

Fixpoint rmap {A B} (f : A -> result B) (l : list A) : result (list B) :=
  match l with
  | [] => Ok []
  | x :: r => bind (f x) (fun y => bind (rmap f r) (fun ys => Ok (y :: ys)))
  end.

(* ---- Python dict (insertion ordered): d[k] = v ----------------------------- *)
Fixpoint dset {K V} (eqb : K -> K -> bool) (d : list (K * V)) (k : K) (v : V) : list (K * V) :=
  match d with
  | [] => [(k, v)]
  | (k', v') :: r => if eqb k k' then (k', v) :: r else (k', v') :: dset eqb r k v
  end.

(* ---- data ------------------------------------------------------------------- *)
Definition addr := (str * Z)%type.                 (* text, ip version (0 = not an IP literal) *)
Definition addr_ok (a : addr) : bool := Z.eqb (snd a) 4 || Z.eqb (snd a) 6.

Inductive fmt_item := FI (z : Z) | FS (s : str).
Inductive pval := PNone | PInt (z : Z) | PStr (s : str).
Inductive fbtarget := FbAll | FbPt (z : Z) | FbOther.
Inductive ctok := TS (s : str) | TI (z : Z).

Record cand := mkCand {
  c_foundation : str; c_component : Z; c_protocol : str; c_priority : Z; c_ip : str; c_port : Z;
  c_type : str; c_raddr : option str; c_rport : option Z; c_tcptype : option str }.

Inductive line :=
| Lv (n : Z) | Lo (s : str) | Ls (s : str) | Lt (s : str)
| Lc (a : addr)
| Lm (kind : str) (port : Z) (profile : str) (fmt : list fmt_item)
| Lmerr (e : err)
| Ldir (d : str)
| Lextmap (id : Z) (uri : str)
| Lmid (v : option str)
| Lmsid (v : option str)
| Lrtcp (port : Z) (a : option addr)
| Lrtcp_mux
| Lssrc_group (g : option (str * list Z))      (* None: value.split() was empty *)
| Lssrc (id : Z) (attr : str) (val : str)
| Lrtpmap (pt : Z) (name : str) (clock : Z) (ch : option (option Z))
                                               (* ch: None = no third component, Some None = third
                                                  component that int() rejects *)
| Lrtcp_fb (t : fbtarget) (ty : option (str * option str))   (* None: fewer than two fields *)
| Lfmtp (pt : Z) (ps : option (list (str * pval)))           (* None: int() of a parameter raises *)
| Lsctpmap (id : Z) (v : str)
| Lsctp_port (n : Z)
| Lmax_msg (n : Z)
| Lcandidate (toks : list ctok)
| Lend_of_candidates
| Lice_ufrag (v : option str) | Lice_pwd (v : option str) | Lice_options (v : option str)
| Lice_lite
| Lfingerprint (alg v : str)
| Lsetup (v : option str)
| Lgroup (toks : list str) | Lmsid_semantic (toks : list str)
| Lerr1 (e : err) | Lerr2 (e : err)
| Lother.

Record ssrc_desc := mkSsrc {
  s_id : Z; s_cn : option str; s_ms : option str; s_msl : option str; s_lb : option str }.

Definition feedback := (str * option str)%type.
Definition params := list (str * pval).

Record codec := mkCodec {
  k_mime : str; k_clock : Z; k_channels : option Z; k_pt : Z; k_fb : list feedback; k_params : params }.

Definition group := (str * list str)%type.
Definition fingerprint := (str * str)%type.

Record ice := mkIce { i_ufrag : option str; i_pwd : option str; i_lite : bool }.

Record media := mkMedia {
  m_kind : str; m_port : Z; m_host : option addr; m_profile : str;
  m_direction : option str; m_msid : option str;
  m_rtcp_port : option Z; m_rtcp_host : option addr; m_rtcp_mux : bool;
  m_ssrc : list ssrc_desc; m_ssrc_group : list (str * list Z);
  m_fmt : list fmt_item;
  m_codecs : list codec; m_exts : list (Z * str); m_mid : option str;       (* media.rtp *)
  m_sctp_cap : option Z; m_sctpmap : list (Z * str); m_sctp_port : option Z;
  m_dtls : option (list fingerprint * option str);                             (* fingerprints, role *)
  m_ice : option ice; m_cands : list cand; m_complete : bool; m_ice_options : option str }.

Record description := mkDesc {
  d_version : Z; d_origin : option str; d_name : str; d_time : str; d_host : option addr;
  d_group : list group; d_msid_semantic : list group; d_media : list media }.

(* ---- candidates (sdp.py 98-135) ------------------------------------------- *)
Definition as_s (t : ctok) : result str := match t with TS s => Ok s | TI _ => Crash end.
Definition as_i (t : ctok) : result Z := match t with TI z => Ok z | TS _ => Crash end.
(* (the lexer hands over integers exactly at the positions int() is applied to; a
   token of the other sort cannot come from it and is answered with Crash) *)

Definition tok_is (t : ctok) (s : str) : bool := match t with TS x => str_eqb x s | TI _ => false end.

(* for i in range(8, len(bits) - 1, 2) *)
Fixpoint cand_ext (c : cand) (ext : list ctok) : result cand :=
  match ext with
  | k :: v :: r =>
      bind (if tok_is k s_raddr then
              bind (as_s v) (fun a => Ok (mkCand (c_foundation c) (c_component c) (c_protocol c) (c_priority c)
                                                 (c_ip c) (c_port c) (c_type c) (Some a) (c_rport c) (c_tcptype c)))
            else if tok_is k s_rport then
              bind (as_i v) (fun p => Ok (mkCand (c_foundation c) (c_component c) (c_protocol c) (c_priority c)
                                                 (c_ip c) (c_port c) (c_type c) (c_raddr c) (Some p) (c_tcptype c)))
            else if tok_is k s_tcptype then
              bind (as_s v) (fun t => Ok (mkCand (c_foundation c) (c_component c) (c_protocol c) (c_priority c)
                                                 (c_ip c) (c_port c) (c_type c) (c_raddr c) (c_rport c) (Some t)))
            else Ok c)
           (fun c' => cand_ext c' r)
  | _ => Ok c
  end.

Definition cand_of_tokens (bits : list ctok) : result cand :=
  match bits with
  | b0 :: b1 :: b2 :: b3 :: b4 :: b5 :: b6 :: b7 :: ext =>
      bind (as_i b1) (fun component =>
      bind (as_s b0) (fun foundation =>
      bind (as_s b4) (fun ip =>
      bind (as_i b5) (fun port =>
      bind (as_i b3) (fun priority =>
      bind (as_s b2) (fun protocol =>
      bind (as_s b7) (fun type =>
      cand_ext (mkCand foundation component protocol priority ip port type None None None) ext)))))))
  | _ => Crash                                   (* assert len(bits) >= 8 *)
  end.

Definition cand_to_tokens (c : cand) : list ctok :=
  [TS (c_foundation c); TI (c_component c); TS (c_protocol c); TI (c_priority c); TS (c_ip c);
   TI (c_port c); TS s_typ; TS (c_type c)]
  ++ match c_raddr c with Some a => [TS s_raddr; TS a] | None => [] end
  ++ match c_rport c with Some p => [TS s_rport; TI p] | None => [] end
  ++ match c_tcptype c with Some t => [TS s_tcptype; TS t] | None => [] end.

(* ---- fmtp parameters (sdp.py 162-183) -------------------------------------- *)
(* parameters_from_sdp on the tokenised ';'-separated list: dictionary insertion *)
Definition params_from (l : list (str * pval)) : params :=
  fold_left (fun d kv => dset str_eqb d (fst kv) (snd kv)) l [].
(* parameters_to_sdp: one item per dictionary entry, in order *)
Definition params_to (p : params) : list (str * pval) := p.
(* `if params:` on the joined text: it is empty for {} and for {"": None} *)
Definition params_empty (p : params) : bool :=
  match p with
  | [] => true
  | [(k, PNone)] => str_eqb k []
  | _ => false
  end.

(* ---- codec name (rtcrtpparameters.py 48-56) --------------------------------- *)
(* s.split("/")[1] *)
Fixpoint seg1 (s : str) : str :=
  match s with
  | [] => []
  | c :: r => if Z.eqb c SLASH then [] else c :: seg1 r
  end.
Fixpoint after_slash (s : str) : option str :=
  match s with
  | [] => None
  | c :: r => if Z.eqb c SLASH then Some r else after_slash r
  end.
Definition name_of (mime : str) : option str :=      (* None = IndexError *)
  match after_slash mime with Some r => Some (seg1 r) | None => None end.

(* ---- MediaDescription.__str__ (sdp.py 285-362) ------------------------------ *)
Definition truthy (o : option str) : bool := match o with Some (_ :: _) => true | _ => false end.

Definition addr_lines (o : option addr) (mk : addr -> line) : result (list line) :=
  match o with
  | None => Ok []
  | Some a => if addr_ok a then Ok [mk a] else ValueErr      (* ipaddress_to_sdp *)
  end.

Definition rtcp_lines (m : media) : result (list line) :=
  match m_rtcp_port m with
  | None => Ok []
  | Some p =>
      match m_rtcp_host m with
      | None => Ok [Lrtcp p None]
      | Some a => if addr_ok a then Ok [Lrtcp p (Some a)] else ValueErr
      end
  end.

Definition opt_line {T} (o : option T) (mk : T -> line) : list line :=
  match o with Some x => [mk x] | None => [] end.

Definition ssrc_lines (s : ssrc_desc) : list line :=
  opt_line (s_cn s) (Lssrc (s_id s) s_cname) ++ opt_line (s_ms s) (Lssrc (s_id s) s_msid)
  ++ opt_line (s_msl s) (Lssrc (s_id s) s_mslabel) ++ opt_line (s_lb s) (Lssrc (s_id s) s_label).

Definition fb_line (pt : Z) (f : feedback) : line :=
  Lrtcp_fb (FbPt pt) (Some (fst f, if truthy (snd f) then snd f else None)).

Definition codec_lines (c : codec) : result (list line) :=
  match name_of (k_mime c) with
  | None => Crash
  | Some n =>
      Ok (Lrtpmap (k_pt c) n (k_clock c)
                  (match k_channels c with Some 2 => Some (Some 2) | _ => None end)
          :: map (fb_line (k_pt c)) (k_fb c)
          ++ (if params_empty (k_params c) then [] else [Lfmtp (k_pt c) (Some (params_to (k_params c)))]))
  end.

Definition role_setup (r : option str) : result str :=      (* DTLS_ROLE_SETUP[role] *)
  match r with
  | None => Crash
  | Some s => if str_eqb s s_auto then Ok s_actpass
              else if str_eqb s s_client then Ok s_active
              else if str_eqb s s_server then Ok s_passive
              else Crash
  end.

Definition setup_role (v : option str) : result str :=      (* DTLS_SETUP_ROLE[value] *)
  match v with
  | None => Crash
  | Some s => if str_eqb s s_actpass then Ok s_auto
              else if str_eqb s s_active then Ok s_client
              else if str_eqb s s_passive then Ok s_server
              else Crash
  end.

Definition ice_lines (m : media) : result (list line) :=
  match m_ice m with
  | None => Crash                                  (* self.ice.usernameFragment on None *)
  | Some i => Ok (opt_line (i_ufrag i) (fun s => Lice_ufrag (Some s)) ++ opt_line (i_pwd i) (fun s => Lice_pwd (Some s)))
  end.

Definition dtls_lines (m : media) : result (list line) :=
  match m_dtls m with
  | None => Ok []
  | Some (fps, role) =>
      bind (role_setup role) (fun s => Ok (map (fun f => Lfingerprint (fst f) (snd f)) fps ++ [Lsetup (Some s)]))
  end.

Definition concat_r (l : list (result (list line))) : result (list line) :=
  fold_right (fun r acc => bind r (fun a => bind acc (fun b => Ok (a ++ b)))) (Ok []) l.

Definition render_media (m : media) : result (list line) :=
  bind (addr_lines (m_host m) Lc) (fun l_host =>
  bind (rtcp_lines m) (fun l_rtcp =>
  bind (concat_r (map codec_lines (m_codecs m))) (fun l_codecs =>
  bind (ice_lines m) (fun l_ice =>
  bind (dtls_lines m) (fun l_dtls =>
  Ok (Lm (m_kind m) (m_port m) (m_profile m) (m_fmt m)
      :: l_host
      ++ opt_line (m_direction m) Ldir
      ++ map (fun e => Lextmap (fst e) (snd e)) (m_exts m)
      ++ (if truthy (m_mid m) then [Lmid (m_mid m)] else [])
      ++ (if truthy (m_msid m) then [Lmsid (m_msid m)] else [])
      ++ l_rtcp
      ++ (if m_rtcp_mux m then [Lrtcp_mux] else [])
      ++ map (fun g => Lssrc_group (Some g)) (m_ssrc_group m)
      ++ flat_map ssrc_lines (m_ssrc m)
      ++ l_codecs
      ++ map (fun e => Lsctpmap (fst e) (snd e)) (m_sctpmap m)
      ++ opt_line (m_sctp_port m) Lsctp_port
      ++ opt_line (m_sctp_cap m) Lmax_msg
      ++ map (fun c => Lcandidate (cand_to_tokens c)) (m_cands m)
      ++ (if m_complete m then [Lend_of_candidates] else [])
      ++ l_ice
      ++ opt_line (m_ice_options m) (fun s => Lice_options (Some s))
      ++ l_dtls)))))).

(* any(m.ice.iceLite for m in self.media) *)
Fixpoint any_lite (ms : list media) : result bool :=
  match ms with
  | [] => Ok false
  | m :: r => match m_ice m with
              | None => Crash
              | Some i => if i_lite i then Ok true else any_lite r
              end
  end.

Definition group_line (mk : list str -> line) (g : group) : line := mk (fst g :: snd g).

(* SessionDescription.__str__ (sdp.py 577-588) *)
Definition render_session (d : description) : result (list line) :=
  bind (addr_lines (d_host d) Lc) (fun l_host =>
  bind (any_lite (d_media d)) (fun lite =>
  Ok ([Lv (d_version d); Lo (match d_origin d with Some s => s | None => s_None end); Ls (d_name d)]
      ++ l_host
      ++ [Lt (d_time d)]
      ++ (if lite then [Lice_lite] else [])
      ++ map (group_line Lgroup) (d_group d)
      ++ map (group_line Lmsid_semantic) (d_msid_semantic d)))).

Definition render (d : description) : result (list line) :=
  bind (render_session d) (fun ls =>
  bind (concat_r (map render_media (d_media d))) (fun lm => Ok (ls ++ lm))).

(* ---- SessionDescription.parse (sdp.py 377-564) ------------------------------ *)
Definition is_m (l : line) : bool := match l with Lm _ _ _ _ | Lmerr _ => true | _ => false end.

(* grouplines (sdp.py 138-148) *)
Fixpoint grouplines (ls : list line) : list line * list (line * list line) :=
  match ls with
  | [] => ([], [])
  | l :: r => let '(s, ms) := grouplines r in
              if is_m l then ([], (l, s) :: ms) else (l :: s, ms)
  end.

(* parse_group with type=str *)
Definition parse_group (dest : list group) (toks : list str) : list group :=
  match toks with
  | [] => dest
  | sem :: items => dest ++ [(sem, items)]
  end.

Record sess := mkSess {
  x_version : Z; x_origin : option str; x_name : str; x_time : str; x_host : option addr;
  x_group : list group; x_msid_semantic : list group;
  x_fps : list fingerprint; x_role : option str; x_lite : bool; x_options : option str;
  x_pwd : option str; x_ufrag : option str }.

(* s = "-" , t = "0 0" *)
Definition sess0 : sess := mkSess 0 None [45] [48; 32; 48] None [] [] [] None false None None None.

Definition step_s (x : sess) (l : line) : result sess :=
  match l with
  | Lv n => Ok (mkSess n (x_origin x) (x_name x) (x_time x) (x_host x) (x_group x) (x_msid_semantic x)
                       (x_fps x) (x_role x) (x_lite x) (x_options x) (x_pwd x) (x_ufrag x))
  | Lo s => Ok (mkSess (x_version x) (Some s) (x_name x) (x_time x) (x_host x) (x_group x) (x_msid_semantic x)
                       (x_fps x) (x_role x) (x_lite x) (x_options x) (x_pwd x) (x_ufrag x))
  | Ls s => Ok (mkSess (x_version x) (x_origin x) s (x_time x) (x_host x) (x_group x) (x_msid_semantic x)
                       (x_fps x) (x_role x) (x_lite x) (x_options x) (x_pwd x) (x_ufrag x))
  | Lc a => Ok (mkSess (x_version x) (x_origin x) (x_name x) (x_time x) (Some a) (x_group x) (x_msid_semantic x)
                       (x_fps x) (x_role x) (x_lite x) (x_options x) (x_pwd x) (x_ufrag x))
  | Lt s => Ok (mkSess (x_version x) (x_origin x) (x_name x) s (x_host x) (x_group x) (x_msid_semantic x)
                       (x_fps x) (x_role x) (x_lite x) (x_options x) (x_pwd x) (x_ufrag x))
  | Lfingerprint a v =>
            Ok (mkSess (x_version x) (x_origin x) (x_name x) (x_time x) (x_host x) (x_group x) (x_msid_semantic x)
                       (x_fps x ++ [(a, v)]) (x_role x) (x_lite x) (x_options x) (x_pwd x) (x_ufrag x))
  | Lice_lite =>
            Ok (mkSess (x_version x) (x_origin x) (x_name x) (x_time x) (x_host x) (x_group x) (x_msid_semantic x)
                       (x_fps x) (x_role x) true (x_options x) (x_pwd x) (x_ufrag x))
  | Lice_options v =>
            Ok (mkSess (x_version x) (x_origin x) (x_name x) (x_time x) (x_host x) (x_group x) (x_msid_semantic x)
                       (x_fps x) (x_role x) (x_lite x) v (x_pwd x) (x_ufrag x))
  | Lice_pwd v =>
            Ok (mkSess (x_version x) (x_origin x) (x_name x) (x_time x) (x_host x) (x_group x) (x_msid_semantic x)
                       (x_fps x) (x_role x) (x_lite x) (x_options x) v (x_ufrag x))
  | Lice_ufrag v =>
            Ok (mkSess (x_version x) (x_origin x) (x_name x) (x_time x) (x_host x) (x_group x) (x_msid_semantic x)
                       (x_fps x) (x_role x) (x_lite x) (x_options x) (x_pwd x) v)
  | Lgroup toks =>
            Ok (mkSess (x_version x) (x_origin x) (x_name x) (x_time x) (x_host x) (parse_group (x_group x) toks)
                       (x_msid_semantic x) (x_fps x) (x_role x) (x_lite x) (x_options x) (x_pwd x) (x_ufrag x))
  | Lmsid_semantic toks =>
            Ok (mkSess (x_version x) (x_origin x) (x_name x) (x_time x) (x_host x) (x_group x)
                       (parse_group (x_msid_semantic x) toks) (x_fps x) (x_role x) (x_lite x) (x_options x)
                       (x_pwd x) (x_ufrag x))
  | Lsetup v =>
      bind (setup_role v) (fun r =>
            Ok (mkSess (x_version x) (x_origin x) (x_name x) (x_time x) (x_host x) (x_group x) (x_msid_semantic x)
                       (x_fps x) (Some r) (x_lite x) (x_options x) (x_pwd x) (x_ufrag x)))
  | Lerr1 e => raise e
  | _ => Ok x
  end.

(* state of the first loop over a media section: the MediaDescription being
   filled plus current_media.dtls / current_media.ice, which exist throughout
   the loop *)
Record mstate := mkSt {
  t_m : media; t_fps : list fingerprint; t_role : option str; t_ufrag : option str; t_pwd : option str }.

Definition upd_m (t : mstate) (m : media) : mstate := mkSt m (t_fps t) (t_role t) (t_ufrag t) (t_pwd t).

Definition set_host (m : media) (v : option addr) : media :=
  mkMedia (m_kind m) (m_port m) v (m_profile m) (m_direction m) (m_msid m) (m_rtcp_port m) (m_rtcp_host m)
          (m_rtcp_mux m) (m_ssrc m) (m_ssrc_group m) (m_fmt m) (m_codecs m) (m_exts m) (m_mid m) (m_sctp_cap m)
          (m_sctpmap m) (m_sctp_port m) (m_dtls m) (m_ice m) (m_cands m) (m_complete m) (m_ice_options m).
Definition set_direction (m : media) (v : option str) : media :=
  mkMedia (m_kind m) (m_port m) (m_host m) (m_profile m) v (m_msid m) (m_rtcp_port m) (m_rtcp_host m)
          (m_rtcp_mux m) (m_ssrc m) (m_ssrc_group m) (m_fmt m) (m_codecs m) (m_exts m) (m_mid m) (m_sctp_cap m)
          (m_sctpmap m) (m_sctp_port m) (m_dtls m) (m_ice m) (m_cands m) (m_complete m) (m_ice_options m).
Definition set_msid (m : media) (v : option str) : media :=
  mkMedia (m_kind m) (m_port m) (m_host m) (m_profile m) (m_direction m) v (m_rtcp_port m) (m_rtcp_host m)
          (m_rtcp_mux m) (m_ssrc m) (m_ssrc_group m) (m_fmt m) (m_codecs m) (m_exts m) (m_mid m) (m_sctp_cap m)
          (m_sctpmap m) (m_sctp_port m) (m_dtls m) (m_ice m) (m_cands m) (m_complete m) (m_ice_options m).
Definition set_rtcp (m : media) (p : option Z) (h : option addr) : media :=
  mkMedia (m_kind m) (m_port m) (m_host m) (m_profile m) (m_direction m) (m_msid m) p h
          (m_rtcp_mux m) (m_ssrc m) (m_ssrc_group m) (m_fmt m) (m_codecs m) (m_exts m) (m_mid m) (m_sctp_cap m)
          (m_sctpmap m) (m_sctp_port m) (m_dtls m) (m_ice m) (m_cands m) (m_complete m) (m_ice_options m).
Definition set_mux (m : media) (v : bool) : media :=
  mkMedia (m_kind m) (m_port m) (m_host m) (m_profile m) (m_direction m) (m_msid m) (m_rtcp_port m) (m_rtcp_host m)
          v (m_ssrc m) (m_ssrc_group m) (m_fmt m) (m_codecs m) (m_exts m) (m_mid m) (m_sctp_cap m)
          (m_sctpmap m) (m_sctp_port m) (m_dtls m) (m_ice m) (m_cands m) (m_complete m) (m_ice_options m).
Definition set_ssrc (m : media) (v : list ssrc_desc) : media :=
  mkMedia (m_kind m) (m_port m) (m_host m) (m_profile m) (m_direction m) (m_msid m) (m_rtcp_port m) (m_rtcp_host m)
          (m_rtcp_mux m) v (m_ssrc_group m) (m_fmt m) (m_codecs m) (m_exts m) (m_mid m) (m_sctp_cap m)
          (m_sctpmap m) (m_sctp_port m) (m_dtls m) (m_ice m) (m_cands m) (m_complete m) (m_ice_options m).
Definition set_ssrc_group (m : media) (v : list (str * list Z)) : media :=
  mkMedia (m_kind m) (m_port m) (m_host m) (m_profile m) (m_direction m) (m_msid m) (m_rtcp_port m) (m_rtcp_host m)
          (m_rtcp_mux m) (m_ssrc m) v (m_fmt m) (m_codecs m) (m_exts m) (m_mid m) (m_sctp_cap m)
          (m_sctpmap m) (m_sctp_port m) (m_dtls m) (m_ice m) (m_cands m) (m_complete m) (m_ice_options m).
Definition set_codecs (m : media) (v : list codec) : media :=
  mkMedia (m_kind m) (m_port m) (m_host m) (m_profile m) (m_direction m) (m_msid m) (m_rtcp_port m) (m_rtcp_host m)
          (m_rtcp_mux m) (m_ssrc m) (m_ssrc_group m) (m_fmt m) v (m_exts m) (m_mid m) (m_sctp_cap m)
          (m_sctpmap m) (m_sctp_port m) (m_dtls m) (m_ice m) (m_cands m) (m_complete m) (m_ice_options m).
Definition set_exts (m : media) (v : list (Z * str)) : media :=
  mkMedia (m_kind m) (m_port m) (m_host m) (m_profile m) (m_direction m) (m_msid m) (m_rtcp_port m) (m_rtcp_host m)
          (m_rtcp_mux m) (m_ssrc m) (m_ssrc_group m) (m_fmt m) (m_codecs m) v (m_mid m) (m_sctp_cap m)
          (m_sctpmap m) (m_sctp_port m) (m_dtls m) (m_ice m) (m_cands m) (m_complete m) (m_ice_options m).
Definition set_mid (m : media) (v : option str) : media :=
  mkMedia (m_kind m) (m_port m) (m_host m) (m_profile m) (m_direction m) (m_msid m) (m_rtcp_port m) (m_rtcp_host m)
          (m_rtcp_mux m) (m_ssrc m) (m_ssrc_group m) (m_fmt m) (m_codecs m) (m_exts m) v (m_sctp_cap m)
          (m_sctpmap m) (m_sctp_port m) (m_dtls m) (m_ice m) (m_cands m) (m_complete m) (m_ice_options m).
Definition set_sctp_cap (m : media) (v : option Z) : media :=
  mkMedia (m_kind m) (m_port m) (m_host m) (m_profile m) (m_direction m) (m_msid m) (m_rtcp_port m) (m_rtcp_host m)
          (m_rtcp_mux m) (m_ssrc m) (m_ssrc_group m) (m_fmt m) (m_codecs m) (m_exts m) (m_mid m) v
          (m_sctpmap m) (m_sctp_port m) (m_dtls m) (m_ice m) (m_cands m) (m_complete m) (m_ice_options m).
Definition set_sctpmap (m : media) (v : list (Z * str)) : media :=
  mkMedia (m_kind m) (m_port m) (m_host m) (m_profile m) (m_direction m) (m_msid m) (m_rtcp_port m) (m_rtcp_host m)
          (m_rtcp_mux m) (m_ssrc m) (m_ssrc_group m) (m_fmt m) (m_codecs m) (m_exts m) (m_mid m) (m_sctp_cap m)
          v (m_sctp_port m) (m_dtls m) (m_ice m) (m_cands m) (m_complete m) (m_ice_options m).
Definition set_sctp_port (m : media) (v : option Z) : media :=
  mkMedia (m_kind m) (m_port m) (m_host m) (m_profile m) (m_direction m) (m_msid m) (m_rtcp_port m) (m_rtcp_host m)
          (m_rtcp_mux m) (m_ssrc m) (m_ssrc_group m) (m_fmt m) (m_codecs m) (m_exts m) (m_mid m) (m_sctp_cap m)
          (m_sctpmap m) v (m_dtls m) (m_ice m) (m_cands m) (m_complete m) (m_ice_options m).
Definition set_dtls_ice (m : media) (d : option (list fingerprint * option str)) (i : option ice) : media :=
  mkMedia (m_kind m) (m_port m) (m_host m) (m_profile m) (m_direction m) (m_msid m) (m_rtcp_port m) (m_rtcp_host m)
          (m_rtcp_mux m) (m_ssrc m) (m_ssrc_group m) (m_fmt m) (m_codecs m) (m_exts m) (m_mid m) (m_sctp_cap m)
          (m_sctpmap m) (m_sctp_port m) d i (m_cands m) (m_complete m) (m_ice_options m).
Definition set_cands (m : media) (v : list cand) : media :=
  mkMedia (m_kind m) (m_port m) (m_host m) (m_profile m) (m_direction m) (m_msid m) (m_rtcp_port m) (m_rtcp_host m)
          (m_rtcp_mux m) (m_ssrc m) (m_ssrc_group m) (m_fmt m) (m_codecs m) (m_exts m) (m_mid m) (m_sctp_cap m)
          (m_sctpmap m) (m_sctp_port m) (m_dtls m) (m_ice m) v (m_complete m) (m_ice_options m).
Definition set_complete (m : media) (v : bool) : media :=
  mkMedia (m_kind m) (m_port m) (m_host m) (m_profile m) (m_direction m) (m_msid m) (m_rtcp_port m) (m_rtcp_host m)
          (m_rtcp_mux m) (m_ssrc m) (m_ssrc_group m) (m_fmt m) (m_codecs m) (m_exts m) (m_mid m) (m_sctp_cap m)
          (m_sctpmap m) (m_sctp_port m) (m_dtls m) (m_ice m) (m_cands m) v (m_ice_options m).
Definition set_ice_options (m : media) (v : option str) : media :=
  mkMedia (m_kind m) (m_port m) (m_host m) (m_profile m) (m_direction m) (m_msid m) (m_rtcp_port m) (m_rtcp_host m)
          (m_rtcp_mux m) (m_ssrc m) (m_ssrc_group m) (m_fmt m) (m_codecs m) (m_exts m) (m_mid m) (m_sctp_cap m)
          (m_sctpmap m) (m_sctp_port m) (m_dtls m) (m_ice m) (m_cands m) (m_complete m) v.

(* a=ssrc: find the entry or append a new one, then setattr for the known names *)
Definition ssrc_setattr (s : ssrc_desc) (attr v : str) : ssrc_desc :=
  if str_eqb attr s_cname then mkSsrc (s_id s) (Some v) (s_ms s) (s_msl s) (s_lb s)
  else if str_eqb attr s_msid then mkSsrc (s_id s) (s_cn s) (Some v) (s_msl s) (s_lb s)
  else if str_eqb attr s_mslabel then mkSsrc (s_id s) (s_cn s) (s_ms s) (Some v) (s_lb s)
  else if str_eqb attr s_label then mkSsrc (s_id s) (s_cn s) (s_ms s) (s_msl s) (Some v)
  else s.

Fixpoint ssrc_upd (l : list ssrc_desc) (id : Z) (attr v : str) : list ssrc_desc :=
  match l with
  | [] => [ssrc_setattr (mkSsrc id None None None None) attr v]
  | s :: r => if Z.eqb (s_id s) id then ssrc_setattr s attr v :: r else s :: ssrc_upd r id attr v
  end.

Definition has_pt (cs : list codec) (pt : Z) : bool := existsb (fun c => Z.eqb (k_pt c) pt) cs.

Definition step1 (t : mstate) (l : line) : result mstate :=
  let m := t_m t in
  match l with
  | Lc a => Ok (upd_m t (set_host m (Some a)))
  | Lcandidate toks => bind (cand_of_tokens toks) (fun c => Ok (upd_m t (set_cands m (m_cands m ++ [c]))))
  | Lend_of_candidates => Ok (upd_m t (set_complete m true))
  | Lextmap id uri => Ok (upd_m t (set_exts m (m_exts m ++ [(id, uri)])))
  | Lfingerprint a v => Ok (mkSt m (t_fps t ++ [(a, v)]) (t_role t) (t_ufrag t) (t_pwd t))
  | Lice_options v => Ok (upd_m t (set_ice_options m v))
  | Lice_pwd v => Ok (mkSt m (t_fps t) (t_role t) (t_ufrag t) v)
  | Lice_ufrag v => Ok (mkSt m (t_fps t) (t_role t) v (t_pwd t))
  | Lmax_msg n => Ok (upd_m t (set_sctp_cap m (Some n)))
  | Lmid v => Ok (upd_m t (set_mid m v))
  | Lmsid v => Ok (upd_m t (set_msid m v))
  | Lrtcp p a => Ok (upd_m t (set_rtcp m (Some p) (match a with Some x => Some x | None => m_rtcp_host m end)))
  | Lrtcp_mux => Ok (upd_m t (set_mux m true))
  | Lsetup v => bind (setup_role v) (fun r => Ok (mkSt m (t_fps t) (Some r) (t_ufrag t) (t_pwd t)))
  | Ldir d => Ok (upd_m t (set_direction m (Some d)))
  | Lrtpmap pt name clock ch =>
      bind (if str_eqb (m_kind m) s_audio then
              match ch with
              | Some (Some z) => Ok (Some z)
              | Some None => ValueErr
              | None => Ok (Some 1)
              end
            else Ok None) (fun channels =>
      let c := mkCodec (m_kind m ++ SLASH :: name) clock channels pt [] [] in
      (* repaired code: a payload type is only mapped once, the first mapping wins *)
      if has_pt (m_codecs m) pt then Ok t else Ok (upd_m t (set_codecs m (m_codecs m ++ [c]))))
  | Lsctpmap id v => Ok (upd_m t (set_sctpmap m (dset Z.eqb (m_sctpmap m) id v)))
  | Lsctp_port n => Ok (upd_m t (set_sctp_port m (Some n)))
  | Lssrc_group g => Ok (match g with
                         | Some x => upd_m t (set_ssrc_group m (m_ssrc_group m ++ [x]))
                         | None => t
                         end)
  | Lssrc id attr v => Ok (upd_m t (set_ssrc m (ssrc_upd (m_ssrc m) id attr v)))
  | Lerr1 e => raise e
  | _ => Ok t
  end.

(* second loop: a=fmtp and a=rtcp-fb, on the codec list *)
Fixpoint set_params (cs : list codec) (pt : Z) (p : params) : option (list codec) :=
  match cs with
  | [] => None                                             (* find_codec: StopIteration *)
  | c :: r => if Z.eqb (k_pt c) pt
              then Some (mkCodec (k_mime c) (k_clock c) (k_channels c) (k_pt c) (k_fb c) p :: r)
              else match set_params r pt p with Some r' => Some (c :: r') | None => None end
  end.

Definition fb_matches (t : fbtarget) (pt : Z) : bool :=   (* bits[0] in ["*", str(codec.payloadType)] *)
  match t with FbAll => true | FbPt z => Z.eqb z pt | FbOther => false end.

Definition add_fb (t : fbtarget) (ty : option (str * option str)) (c : codec) : result codec :=
  if fb_matches t (k_pt c) then
    match ty with
    | None => Crash                                        (* bits[1]: IndexError *)
    | Some f => Ok (mkCodec (k_mime c) (k_clock c) (k_channels c) (k_pt c) (k_fb c ++ [f]) (k_params c))
    end
  else Ok c.

Definition step2 (cs : list codec) (l : line) : result (list codec) :=
  match l with
  | Lfmtp pt ps =>
      if has_pt cs pt then
        match ps with
        | None => ValueErr                                 (* parameters_from_sdp: int(v) *)
        | Some l => match set_params cs pt (params_from l) with Some cs' => Ok cs' | None => Crash end
        end
      else Crash
  | Lrtcp_fb t ty => rmap (add_fb t ty) cs
  | Lerr2 e => raise e
  | _ => Ok cs
  end.

Definition is_av (kind : str) : bool := str_eqb kind s_audio || str_eqb kind s_video.

(* fmt_int = [int(x) for x in fmt]; then the two asserts per payload type *)
Fixpoint fmt_all_int (f : list fmt_item) : bool :=
  match f with [] => true | FI _ :: r => fmt_all_int r | FS _ :: _ => false end.
Fixpoint fmt_pts_ok (f : list fmt_item) : bool :=
  match f with
  | [] => true
  | FI z :: r => (0 <=? z) && (z <? 256) && negb (forbidden_pt z) && fmt_pts_ok r
  | FS _ :: r => fmt_pts_ok r
  end.

Definition media0 (kind : str) (port : Z) (profile : str) (fmt : list fmt_item) (options : option str) : media :=
  mkMedia kind port None profile None None None None false [] [] fmt [] [] (Some []) None [] None None None [] false
          options.

Definition absorb_media (x : sess) (g : line * list line) : result media :=
  match fst g with
  | Lm kind port profile fmt =>
      bind (match fmt with
            | [] => Crash                                   (* repaired code: assert fmt *)
            | _ => if is_av kind then
                     if fmt_all_int fmt then (if fmt_pts_ok fmt then Ok tt else Crash) else ValueErr
                   else Ok tt
            end) (fun _ =>
      bind (rfold step1 (snd g) (mkSt (media0 kind port profile fmt (x_options x)) (x_fps x) (x_role x)
                                      (x_ufrag x) (x_pwd x))) (fun t =>
      bind (rfold step2 (snd g) (m_codecs (t_m t))) (fun cs =>
      Ok (set_dtls_ice (set_codecs (t_m t) cs)
                       (match t_role t with None => None | Some r => Some (t_fps t, Some r) end)
                       (Some (mkIce (t_ufrag t) (t_pwd t) (x_lite x)))))))
  | Lmerr e => raise e
  | _ => Crash
  end.

Definition absorb (ls : list line) : result description :=
  let '(s, ms) := grouplines ls in
  bind (rfold step_s s sess0) (fun x =>
  bind (rmap (absorb_media x) ms) (fun media =>
  Ok (mkDesc (x_version x) (x_origin x) (x_name x) (x_time x) (x_host x) (x_group x) (x_msid_semantic x) media))).

(* ---- s-expression glue (trusted, exercised by the correspondence) --------- *)
Definition sx_str (x : sx) : str := sx_zs x.
Definition of_str (s : str) : sx := of_zs s.
Definition sx_addr (x : sx) : addr := (sx_str (sx_nth x 0), sx_z (sx_nth x 1)).
Definition of_addr (a : addr) : sx := L [of_str (fst a); A (snd a)].
Definition sx_ctok (x : sx) : ctok :=
  if Z.eqb (sx_z (sx_nth x 0)) 0 then TS (sx_str (sx_nth x 1)) else TI (sx_z (sx_nth x 1)).
Definition of_ctok (t : ctok) : sx := match t with TS s => L [A 0; of_str s] | TI z => L [A 1; A z] end.
Definition sx_fmt (x : sx) : fmt_item :=
  if Z.eqb (sx_z (sx_nth x 0)) 0 then FS (sx_str (sx_nth x 1)) else FI (sx_z (sx_nth x 1)).
Definition of_fmt (t : fmt_item) : sx := match t with FS s => L [A 0; of_str s] | FI z => L [A 1; A z] end.
Definition sx_pval (x : sx) : pval :=
  let k := sx_z (sx_nth x 0) in
  if Z.eqb k 0 then PNone else if Z.eqb k 1 then PInt (sx_z (sx_nth x 1)) else PStr (sx_str (sx_nth x 1)).
Definition of_pval (p : pval) : sx :=
  match p with PNone => L [A 0] | PInt z => L [A 1; A z] | PStr s => L [A 2; of_str s] end.
Definition sx_param (x : sx) : str * pval := (sx_str (sx_nth x 0), sx_pval (sx_nth x 1)).
Definition of_param (p : str * pval) : sx := L [of_str (fst p); of_pval (snd p)].
Definition sx_err (x : sx) : err := if Z.eqb (sx_z x) ERR_VALUE then EValue else ECrash.
Definition of_err (e : err) : sx := A (match e with EValue => ERR_VALUE | ECrash => ERR_CRASH end).
Definition sx_list {T} (f : sx -> T) (x : sx) : list T := map f (sx_l x).
Definition of_list {T} (f : T -> sx) (l : list T) : sx := L (map f l).
Definition sx_fb (x : sx) : feedback := (sx_str (sx_nth x 0), sx_opt sx_str (sx_nth x 1)).
Definition of_fb (f : feedback) : sx := L [of_str (fst f); of_opt of_str (snd f)].
Definition sx_zpair (x : sx) : Z * str := (sx_z (sx_nth x 0), sx_str (sx_nth x 1)).
Definition of_zpair (p : Z * str) : sx := L [A (fst p); of_str (snd p)].
Definition sx_spair (x : sx) : str * str := (sx_str (sx_nth x 0), sx_str (sx_nth x 1)).
Definition of_spair (p : str * str) : sx := L [of_str (fst p); of_str (snd p)].
Definition sx_sgroup (x : sx) : str * list Z := (sx_str (sx_nth x 0), sx_zs (sx_nth x 1)).
Definition of_sgroup (g : str * list Z) : sx := L [of_str (fst g); of_zs (snd g)].
Definition sx_group (x : sx) : group := (sx_str (sx_nth x 0), sx_list sx_str (sx_nth x 1)).
Definition of_group (g : group) : sx := L [of_str (fst g); of_list of_str (snd g)].

Definition sx_line (x : sx) : line :=
  let k := sx_z (sx_nth x 0) in
  let a := sx_nth x 1 in let b := sx_nth x 2 in let c := sx_nth x 3 in let d := sx_nth x 4 in
  if Z.eqb k 0 then Lv (sx_z a)
  else if Z.eqb k 1 then Lo (sx_str a)
  else if Z.eqb k 2 then Ls (sx_str a)
  else if Z.eqb k 3 then Lt (sx_str a)
  else if Z.eqb k 4 then Lc (sx_addr a)
  else if Z.eqb k 5 then Lm (sx_str a) (sx_z b) (sx_str c) (sx_list sx_fmt d)
  else if Z.eqb k 6 then Lmerr (sx_err a)
  else if Z.eqb k 7 then Ldir (sx_str a)
  else if Z.eqb k 8 then Lextmap (sx_z a) (sx_str b)
  else if Z.eqb k 9 then Lmid (sx_opt sx_str a)
  else if Z.eqb k 10 then Lmsid (sx_opt sx_str a)
  else if Z.eqb k 11 then Lrtcp (sx_z a) (sx_opt sx_addr b)
  else if Z.eqb k 12 then Lrtcp_mux
  else if Z.eqb k 13 then Lssrc_group (sx_opt sx_sgroup a)
  else if Z.eqb k 14 then Lssrc (sx_z a) (sx_str b) (sx_str c)
  else if Z.eqb k 15 then Lrtpmap (sx_z a) (sx_str b) (sx_z c) (sx_opt (sx_opt sx_z) d)
  else if Z.eqb k 16 then
    Lrtcp_fb (let t := sx_z (sx_nth a 0) in
              if Z.eqb t 0 then FbAll else if Z.eqb t 1 then FbPt (sx_z (sx_nth a 1)) else FbOther)
             (sx_opt (fun y => (sx_str (sx_nth y 0), sx_opt sx_str (sx_nth y 1))) b)
  else if Z.eqb k 17 then Lfmtp (sx_z a) (sx_opt (sx_list sx_param) b)
  else if Z.eqb k 18 then Lsctpmap (sx_z a) (sx_str b)
  else if Z.eqb k 19 then Lsctp_port (sx_z a)
  else if Z.eqb k 20 then Lmax_msg (sx_z a)
  else if Z.eqb k 21 then Lcandidate (sx_list sx_ctok a)
  else if Z.eqb k 22 then Lend_of_candidates
  else if Z.eqb k 23 then Lice_ufrag (sx_opt sx_str a)
  else if Z.eqb k 24 then Lice_pwd (sx_opt sx_str a)
  else if Z.eqb k 25 then Lice_options (sx_opt sx_str a)
  else if Z.eqb k 26 then Lice_lite
  else if Z.eqb k 27 then Lfingerprint (sx_str a) (sx_str b)
  else if Z.eqb k 28 then Lsetup (sx_opt sx_str a)
  else if Z.eqb k 29 then Lgroup (sx_list sx_str a)
  else if Z.eqb k 30 then Lmsid_semantic (sx_list sx_str a)
  else if Z.eqb k 31 then Lerr1 (sx_err a)
  else if Z.eqb k 32 then Lerr2 (sx_err a)
  else Lother.

Definition of_line (l : line) : sx :=
  match l with
  | Lv n => L [A 0; A n]
  | Lo s => L [A 1; of_str s]
  | Ls s => L [A 2; of_str s]
  | Lt s => L [A 3; of_str s]
  | Lc a => L [A 4; of_addr a]
  | Lm k p pr f => L [A 5; of_str k; A p; of_str pr; of_list of_fmt f]
  | Lmerr e => L [A 6; of_err e]
  | Ldir d => L [A 7; of_str d]
  | Lextmap i u => L [A 8; A i; of_str u]
  | Lmid v => L [A 9; of_opt of_str v]
  | Lmsid v => L [A 10; of_opt of_str v]
  | Lrtcp p a => L [A 11; A p; of_opt of_addr a]
  | Lrtcp_mux => L [A 12]
  | Lssrc_group g => L [A 13; of_opt of_sgroup g]
  | Lssrc i a v => L [A 14; A i; of_str a; of_str v]
  | Lrtpmap pt n c ch => L [A 15; A pt; of_str n; A c; of_opt (of_opt A) ch]
  | Lrtcp_fb t ty =>
      L [A 16; match t with FbAll => L [A 0] | FbPt z => L [A 1; A z] | FbOther => L [A 2] end;
         of_opt (fun y => L [of_str (fst y); of_opt of_str (snd y)]) ty]
  | Lfmtp pt ps => L [A 17; A pt; of_opt (of_list of_param) ps]
  | Lsctpmap i v => L [A 18; A i; of_str v]
  | Lsctp_port n => L [A 19; A n]
  | Lmax_msg n => L [A 20; A n]
  | Lcandidate toks => L [A 21; of_list of_ctok toks]
  | Lend_of_candidates => L [A 22]
  | Lice_ufrag v => L [A 23; of_opt of_str v]
  | Lice_pwd v => L [A 24; of_opt of_str v]
  | Lice_options v => L [A 25; of_opt of_str v]
  | Lice_lite => L [A 26]
  | Lfingerprint a v => L [A 27; of_str a; of_str v]
  | Lsetup v => L [A 28; of_opt of_str v]
  | Lgroup t => L [A 29; of_list of_str t]
  | Lmsid_semantic t => L [A 30; of_list of_str t]
  | Lerr1 e => L [A 31; of_err e]
  | Lerr2 e => L [A 32; of_err e]
  | Lother => L [A 33]
  end.

Definition sx_cand (x : sx) : cand :=
  mkCand (sx_str (sx_nth x 0)) (sx_z (sx_nth x 1)) (sx_str (sx_nth x 2)) (sx_z (sx_nth x 3)) (sx_str (sx_nth x 4))
         (sx_z (sx_nth x 5)) (sx_str (sx_nth x 6)) (sx_opt sx_str (sx_nth x 7)) (sx_opt sx_z (sx_nth x 8))
         (sx_opt sx_str (sx_nth x 9)).
Definition of_cand (c : cand) : sx :=
  L [of_str (c_foundation c); A (c_component c); of_str (c_protocol c); A (c_priority c); of_str (c_ip c);
     A (c_port c); of_str (c_type c); of_opt of_str (c_raddr c); of_opt A (c_rport c); of_opt of_str (c_tcptype c)].

Definition sx_ssrc (x : sx) : ssrc_desc :=
  mkSsrc (sx_z (sx_nth x 0)) (sx_opt sx_str (sx_nth x 1)) (sx_opt sx_str (sx_nth x 2)) (sx_opt sx_str (sx_nth x 3))
         (sx_opt sx_str (sx_nth x 4)).
Definition of_ssrc (s : ssrc_desc) : sx :=
  L [A (s_id s); of_opt of_str (s_cn s); of_opt of_str (s_ms s); of_opt of_str (s_msl s); of_opt of_str (s_lb s)].

Definition sx_codec (x : sx) : codec :=
  mkCodec (sx_str (sx_nth x 0)) (sx_z (sx_nth x 1)) (sx_opt sx_z (sx_nth x 2)) (sx_z (sx_nth x 3))
          (sx_list sx_fb (sx_nth x 4)) (sx_list sx_param (sx_nth x 5)).
Definition of_codec (c : codec) : sx :=
  L [of_str (k_mime c); A (k_clock c); of_opt A (k_channels c); A (k_pt c); of_list of_fb (k_fb c);
     of_list of_param (k_params c)].

Definition sx_dtls (x : sx) : list fingerprint * option str :=
  (sx_list sx_spair (sx_nth x 0), sx_opt sx_str (sx_nth x 1)).
Definition of_dtls (d : list fingerprint * option str) : sx := L [of_list of_spair (fst d); of_opt of_str (snd d)].
Definition sx_ice (x : sx) : ice := mkIce (sx_opt sx_str (sx_nth x 0)) (sx_opt sx_str (sx_nth x 1)) (sx_b (sx_nth x 2)).
Definition of_ice (i : ice) : sx := L [of_opt of_str (i_ufrag i); of_opt of_str (i_pwd i); of_b (i_lite i)].

Definition sx_media (x : sx) : media :=
  let n := sx_nth x in
  mkMedia (sx_str (n 0%nat)) (sx_z (n 1%nat)) (sx_opt sx_addr (n 2%nat)) (sx_str (n 3%nat)) (sx_opt sx_str (n 4%nat))
          (sx_opt sx_str (n 5%nat)) (sx_opt sx_z (n 6%nat)) (sx_opt sx_addr (n 7%nat)) (sx_b (n 8%nat))
          (sx_list sx_ssrc (n 9%nat)) (sx_list sx_sgroup (n 10%nat)) (sx_list sx_fmt (n 11%nat))
          (sx_list sx_codec (n 12%nat)) (sx_list sx_zpair (n 13%nat)) (sx_opt sx_str (n 14%nat))
          (sx_opt sx_z (n 15%nat)) (sx_list sx_zpair (n 16%nat)) (sx_opt sx_z (n 17%nat)) (sx_opt sx_dtls (n 18%nat))
          (sx_opt sx_ice (n 19%nat)) (sx_list sx_cand (n 20%nat)) (sx_b (n 21%nat)) (sx_opt sx_str (n 22%nat)).
Definition of_media (m : media) : sx :=
  L [of_str (m_kind m); A (m_port m); of_opt of_addr (m_host m); of_str (m_profile m); of_opt of_str (m_direction m);
     of_opt of_str (m_msid m); of_opt A (m_rtcp_port m); of_opt of_addr (m_rtcp_host m); of_b (m_rtcp_mux m);
     of_list of_ssrc (m_ssrc m); of_list of_sgroup (m_ssrc_group m); of_list of_fmt (m_fmt m);
     of_list of_codec (m_codecs m); of_list of_zpair (m_exts m); of_opt of_str (m_mid m);
     of_opt A (m_sctp_cap m); of_list of_zpair (m_sctpmap m); of_opt A (m_sctp_port m); of_opt of_dtls (m_dtls m);
     of_opt of_ice (m_ice m); of_list of_cand (m_cands m); of_b (m_complete m); of_opt of_str (m_ice_options m)].

Definition sx_desc (x : sx) : description :=
  let n := sx_nth x in
  mkDesc (sx_z (n 0%nat)) (sx_opt sx_str (n 1%nat)) (sx_str (n 2%nat)) (sx_str (n 3%nat)) (sx_opt sx_addr (n 4%nat))
         (sx_list sx_group (n 5%nat)) (sx_list sx_group (n 6%nat)) (sx_list sx_media (n 7%nat)).
Definition of_desc (d : description) : sx :=
  L [A (d_version d); of_opt of_str (d_origin d); of_str (d_name d); of_str (d_time d); of_opt of_addr (d_host d);
     of_list of_group (d_group d); of_list of_group (d_msid_semantic d); of_list of_media (d_media d)].

Definition of_result {T} (f : T -> sx) (r : result T) : sx :=
  match r with Ok a => L [A 0; f a] | ValueErr => L [A ERR_VALUE] | Crash => L [A ERR_CRASH] end.

(* ---- the shape of generated descriptions ----------------------------------- *)
(* What rtcpeerconnection.py (create_media_description_for_transceiver / _for_sctp,
   add_transport_description, createOffer / createAnswer) produces, written out as a
   decidable predicate.  The harness evaluates it on the SessionDescription objects
   of real RTCPeerConnections; theorem C09_generated_fixpoint is stated for it. *)
Fixpoint mem_z (x : Z) (l : list Z) : bool :=
  match l with [] => false | y :: r => Z.eqb x y || mem_z x r end.
Fixpoint nodup_z (l : list Z) : bool :=
  match l with [] => true | x :: r => negb (mem_z x r) && nodup_z r end.
Fixpoint mem_s (x : str) (l : list str) : bool :=
  match l with [] => false | y :: r => str_eqb x y || mem_s x r end.
Fixpoint nodup_s (l : list str) : bool :=
  match l with [] => true | x :: r => negb (mem_s x r) && nodup_s r end.

Definition opt_addr_ok (o : option addr) : bool := match o with None => true | Some a => addr_ok a end.
Definition not_empty_str (o : option str) : bool := match o with Some [] => false | _ => true end.
Definition is_some {T} (o : option T) : bool := match o with Some _ => true | None => false end.

Definition ssrc_nonempty (s : ssrc_desc) : bool :=
  is_some (s_cn s) || is_some (s_ms s) || is_some (s_msl s) || is_some (s_lb s).

Definition role_known (r : option str) : bool :=
  match r with
  | Some s => str_eqb s s_auto || str_eqb s s_client || str_eqb s s_server
  | None => false
  end.

Definition wf_codec_gen (kind : str) (c : codec) : bool :=
  (* mimeType is kind + "/" + name with a name free of "/" *)
  match name_of (k_mime c) with
  | Some n => str_eqb (k_mime c) (kind ++ SLASH :: n)
  | None => false
  end
  && (if str_eqb kind s_audio
      then match k_channels c with Some 1 | Some 2 => true | _ => false end
      else match k_channels c with None => true | Some _ => false end)
  && forallb (fun f => not_empty_str (snd f)) (k_fb c)
  && nodup_s (map fst (k_params c))
  && (match k_params c with [] => true | p => negb (params_empty p) end).

Definition fmt_all_str (f : list fmt_item) : bool :=
  forallb (fun x => match x with FS _ => true | FI _ => false end) f.

Definition wf_media_gen (m : media) : bool :=
  (match m_fmt m with [] => false | _ => true end)
  && (if is_av (m_kind m) then fmt_all_int (m_fmt m) && fmt_pts_ok (m_fmt m) else fmt_all_str (m_fmt m))
  && opt_addr_ok (m_host m)
  && not_empty_str (m_msid m)
  && is_some (m_mid m)
  && (match m_rtcp_host m with Some a => addr_ok a && is_some (m_rtcp_port m) | None => true end)
  && nodup_z (map s_id (m_ssrc m)) && forallb ssrc_nonempty (m_ssrc m)
  && nodup_z (map k_pt (m_codecs m)) && forallb (wf_codec_gen (m_kind m)) (m_codecs m)
  && nodup_z (map fst (m_sctpmap m))
  && is_some (m_ice m)
  && (match m_dtls m with None => true | Some (_, r) => role_known r end).

Definition lite_of (m : media) : bool := match m_ice m with Some i => i_lite i | None => false end.

Definition wf_generated_b (d : description) : bool :=
  is_some (d_origin d)
  && opt_addr_ok (d_host d)
  && forallb wf_media_gen (d_media d)
  && (match d_media d with
      | [] => true
      | m :: r => forallb (fun m' => Bool.eqb (lite_of m') (lite_of m)) r
      end).

(* ---- contrib/signaling.py 25-54: objects <-> JSON messages ----------------------- *)
(* json.loads / json.dumps are trusted; a message is the dictionary, reduced to the keys
   the helper reads (`None` = key absent, g_extra = some other key is present).  The value
   of "candidate" is pre-lexed by the harness: falsy (""), without ":", or the token list
   of what follows "candidate:" (CBad: int() of a numeric field raises). *)
Definition s_offer : str := [111;102;102;101;114].
Definition s_answer : str := [97;110;115;119;101;114].
Definition s_candidate : str := [99;97;110;100;105;100;97;116;101].
Definition s_bye : str := [98;121;101].

Inductive sobj := SDesc (sdp ty : str) | SCand (c : cand) (mid : option str) (idx : option Z) | SBye.
Inductive candfield := CFalsy | CNoColon | CToks (toks : list ctok) | CBad.
Record smsg := mkMsg {
  g_type : option str; g_sdp : option str; g_cand : option candfield;
  g_id : option (option str); g_label : option (option Z); g_extra : bool }.

Definition msg_of_obj (o : sobj) : smsg :=
  match o with
  | SDesc sdp ty => mkMsg (Some ty) (Some sdp) None None None false
  | SCand c mid idx => mkMsg (Some s_candidate) None (Some (CToks (cand_to_tokens c))) (Some mid) (Some idx) false
  | SBye => mkMsg (Some s_bye) None None None None false
  end.

Definition obj_of_msg (m : smsg) : result sobj :=
  match g_type m with
  | None => Crash                                            (* message["type"]: KeyError *)
  | Some ty =>
      if str_eqb ty s_answer || str_eqb ty s_offer then
        (* RTCSessionDescription called with the dictionary as keyword arguments: exactly the keys sdp and type *)
        match g_sdp m, g_cand m, g_id m, g_label m, g_extra m with
        | Some sdp, None, None, None, false => Ok (SDesc sdp ty)
        | _, _, _, _, _ => Crash
        end
      else
        let bye := if str_eqb ty s_bye then Ok SBye else Crash in   (* assert message["type"] == "bye" *)
        if str_eqb ty s_candidate then
          match g_cand m with
          | None => Crash                                    (* message["candidate"]: KeyError *)
          | Some CFalsy => bye
          | Some CNoColon => Crash                           (* .split(":", 1)[1]: IndexError *)
          | Some CBad => ValueErr
          | Some (CToks toks) =>
              bind (cand_of_tokens toks) (fun c =>
              match g_id m, g_label m with
              | Some mid, Some idx => Ok (SCand c mid idx)
              | _, _ => Crash                                (* KeyError *)
              end)
          end
        else bye
  end.

Definition sx_sobj (x : sx) : sobj :=
  let k := sx_z (sx_nth x 0) in
  if Z.eqb k 0 then SDesc (sx_str (sx_nth x 1)) (sx_str (sx_nth x 2))
  else if Z.eqb k 1 then SCand (sx_cand (sx_nth x 1)) (sx_opt sx_str (sx_nth x 2)) (sx_opt sx_z (sx_nth x 3))
  else SBye.
Definition of_sobj (o : sobj) : sx :=
  match o with
  | SDesc s t => L [A 0; of_str s; of_str t]
  | SCand c mid idx => L [A 1; of_cand c; of_opt of_str mid; of_opt A idx]
  | SBye => L [A 2]
  end.
Definition sx_candfield (x : sx) : candfield :=
  let k := sx_z (sx_nth x 0) in
  if Z.eqb k 0 then CFalsy else if Z.eqb k 1 then CNoColon
  else if Z.eqb k 2 then CToks (sx_list sx_ctok (sx_nth x 1)) else CBad.
Definition of_candfield (c : candfield) : sx :=
  match c with CFalsy => L [A 0] | CNoColon => L [A 1] | CToks t => L [A 2; of_list of_ctok t] | CBad => L [A 3] end.
Definition sx_smsg (x : sx) : smsg :=
  mkMsg (sx_opt sx_str (sx_nth x 0)) (sx_opt sx_str (sx_nth x 1)) (sx_opt sx_candfield (sx_nth x 2))
        (sx_opt (sx_opt sx_str) (sx_nth x 3)) (sx_opt (sx_opt sx_z) (sx_nth x 4)) (sx_b (sx_nth x 5)).
Definition of_smsg (m : smsg) : sx :=
  L [of_opt of_str (g_type m); of_opt of_str (g_sdp m); of_opt of_candfield (g_cand m);
     of_opt (of_opt of_str) (g_id m); of_opt (of_opt A) (g_label m); of_b (g_extra m)].

(* ---- entry point for the correspondence runs -------------------------------- *)
Definition round (ls : list line) : sx :=
  let r1 := absorb ls in
  match r1 with
  | Ok d1 =>
      let r2 := render d1 in
      match r2 with
      | Ok ls1 =>
          let r3 := absorb ls1 in
          L [of_result of_desc r1; of_result (of_list of_line) r2; of_result of_desc r3;
             match r3 with Ok d2 => of_result (of_list of_line) (render d2) | _ => L [] end]
      | _ => L [of_result of_desc r1; of_result (of_list of_line) r2; L []; L []]
      end
  | _ => L [of_result of_desc r1; L []; L []; L []]
  end.

Definition main (x : sx) : sx :=
  let k := sx_z (sx_nth x 0) in
  if Z.eqb k 0 then round (sx_list sx_line (sx_nth x 1))
  else if Z.eqb k 1 then
    let d := sx_desc (sx_nth x 1) in
    let r := render d in
    L [of_b (wf_generated_b d); of_result (of_list of_line) r;
       match r with Ok ls => round ls | _ => L [] end]
  else if Z.eqb k 2 then
    let r := cand_of_tokens (sx_list sx_ctok (sx_nth x 1)) in
    L [of_result of_cand r; match r with Ok c => of_list of_ctok (cand_to_tokens c) | _ => L [] end;
       match r with Ok c => of_result of_cand (cand_of_tokens (cand_to_tokens c)) | _ => L [] end]
  else if Z.eqb k 3 then
    L [of_list of_ctok (cand_to_tokens (sx_cand (sx_nth x 1)))]
  else if Z.eqb k 5 then
    let o := sx_sobj (sx_nth x 1) in
    L [of_smsg (msg_of_obj o); of_result of_sobj (obj_of_msg (msg_of_obj o))]
  else if Z.eqb k 6 then
    L [of_result of_sobj (obj_of_msg (sx_smsg (sx_nth x 1)))]
  else
    (* the constants the model shares with the source, compared by value *)
    L [of_zs (filter forbidden_pt (map Z.of_nat (seq 0 300)));
       of_list of_str [s_cname; s_msid; s_mslabel; s_label];
       of_list of_str [s_auto; s_actpass; s_client; s_active; s_server; s_passive];
       of_list of_str [s_audio; s_video; s_None; s_typ; s_raddr; s_rport; s_tcptype; s_offer; s_answer; s_candidate;
                       s_bye]].
