(* Data-channel layer of RTCSctpTransport + RTCDataChannel (after the repairs):
   _data_channel_open / _add_negotiated / _send / _flush / _close / _closed / _receive,
   RE-CONFIG stream reset handling, _set_state, and RTCDataChannel._setReadyState /
   _addBufferedAmount / send / close.  Definitions only.

   Channels are handles (index into `chans`, creation order).  Work the code defers
   with asyncio.ensure_future (_data_channel_flush, _transmit_reconfig) is NOT run
   inline: a step reports it as `scheduled` and it arrives later as its own input, so
   every interleaving of deferred tasks with other inputs is covered.  Whether
   _outbound_queue is non-empty after a _send (the flush loop's exit test) depends on
   the congestion state, which this layer does not model: it is an oracle boolean per
   send, supplied with the input.  UTF-8 validity of received text likewise. *)
From Coq Require Import ZArith List Bool.
From AV Require Import Lib.Sx Lib.Bytes Gen.Utils Gen.SctpConst.
Import ListNotations.
Local Open Scope Z_scope.

Inductive rstate := Connecting | Open | Closing | Closed.
Definition rank (s : rstate) : Z :=
  match s with Connecting => 0 | Open => 1 | Closing => 2 | Closed => 3 end.
Definition rstate_eqb (a b : rstate) : bool := Z.eqb (rank a) (rank b).

Record chan := mkChan {
  ch_id : option Z;
  ch_state : rstate;
  ch_buf : Z;                 (* bufferedAmount *)
  ch_thr : Z;                 (* bufferedAmountLowThreshold *)
  ch_neg : bool;              (* negotiated out of band *)
  ch_ordered : bool;
  ch_maxrt : option Z;        (* maxRetransmits *)
  ch_maxlt : option Z;        (* maxPacketLifeTime *)
  ch_label : bytes;           (* UTF-8 *)
  ch_proto : bytes
}.

Inductive event :=
| EvOpen (h : nat) | EvClose (h : nat) | EvLow (h : nat)
| EvDataChannel (h : nat)
| EvMessage (h : nat) (pp : Z) (data : bytes)
| EvSend (sid pp : Z) (data : bytes) (ordered : bool) (maxrt : option Z) (lifetime : option Z)   (* call of _send *)
| EvReconfigRequest (seq : Z) (strs : list Z)
| EvReconfigResponse (seq : Z)
| EvSchedFlush | EvSchedReconfig
| EvRaise (kind : Z).       (* 1 ValueError (create with used id), 2 InvalidStateError (send when not open) *)

Record st := mkSt {
  established : bool;         (* _association_state == ESTABLISHED *)
  dc_id : Z;                  (* _data_channel_id *)
  chans : list chan;
  table : list (Z * nat);     (* _data_channels: stream id -> handle *)
  queue : list (nat * Z * bytes);   (* _data_channel_queue *)
  rq_queue : list Z;          (* _reconfig_queue *)
  rq_request : option (Z * list Z);  (* _reconfig_request: (request_sequence, streams) *)
  rq_req_seq : Z;
  rq_resp_seq : Z
}.

Definition dummy : chan := mkChan None Closed 0 0 false true None None [] [].
Definition getc (s : st) (h : nat) : chan := nth h (chans s) dummy.

Fixpoint upd {A} (l : list A) (n : nat) (x : A) : list A :=
  match l, n with
  | [], _ => []
  | _ :: l', O => x :: l'
  | y :: l', S n' => y :: upd l' n' x
  end.

Definition setc (s : st) (h : nat) (c : chan) : st :=
  mkSt (established s) (dc_id s) (upd (chans s) h c) (table s) (queue s) (rq_queue s) (rq_request s)
       (rq_req_seq s) (rq_resp_seq s).

Definition with_state (c : chan) (r : rstate) : chan :=
  mkChan (ch_id c) r (ch_buf c) (ch_thr c) (ch_neg c) (ch_ordered c) (ch_maxrt c) (ch_maxlt c) (ch_label c) (ch_proto c).
Definition with_id (c : chan) (i : option Z) : chan :=
  mkChan i (ch_state c) (ch_buf c) (ch_thr c) (ch_neg c) (ch_ordered c) (ch_maxrt c) (ch_maxlt c) (ch_label c) (ch_proto c).
Definition with_buf (c : chan) (b : Z) : chan :=
  mkChan (ch_id c) (ch_state c) b (ch_thr c) (ch_neg c) (ch_ordered c) (ch_maxrt c) (ch_maxlt c) (ch_label c) (ch_proto c).
Definition with_thr (c : chan) (t : Z) : chan :=
  mkChan (ch_id c) (ch_state c) (ch_buf c) t (ch_neg c) (ch_ordered c) (ch_maxrt c) (ch_maxlt c) (ch_label c) (ch_proto c).

(* RTCDataChannel._setReadyState *)
Definition set_ready (s : st) (h : nat) (r : rstate) : st * list event :=
  let c := getc s h in
  if rstate_eqb (ch_state c) r then (s, [])
  else (setc s h (with_state c r),
        match r with Open => [EvOpen h] | Closed => [EvClose h] | _ => [] end).

(* RTCDataChannel._addBufferedAmount *)
Definition add_buffered (s : st) (h : nat) (amount : Z) : st * list event :=
  let c := getc s h in
  let crosses := (ch_thr c <? ch_buf c) && (ch_buf c + amount <=? ch_thr c) in
  (setc s h (with_buf c (ch_buf c + amount)), if crosses then [EvLow h] else []).

Fixpoint tget (t : list (Z * nat)) (k : Z) : option nat :=
  match t with [] => None | (k', v) :: t' => if Z.eqb k k' then Some v else tget t' k end.
Fixpoint tdel (t : list (Z * nat)) (k : Z) : list (Z * nat) :=
  match t with [] => [] | (k', v) :: t' => if Z.eqb k k' then tdel t' k else (k', v) :: tdel t' k end.
Definition tset (t : list (Z * nat)) (k : Z) (v : nat) : list (Z * nat) :=
  match tget t k with
  | Some _ => map (fun kv => if Z.eqb k (fst kv) then (fst kv, v) else kv) t
  | None => t ++ [(k, v)]
  end.

Definition set_table (s : st) (t : list (Z * nat)) : st :=
  mkSt (established s) (dc_id s) (chans s) t (queue s) (rq_queue s) (rq_request s) (rq_req_seq s) (rq_resp_seq s).
Definition set_queue (s : st) (q : list (nat * Z * bytes)) : st :=
  mkSt (established s) (dc_id s) (chans s) (table s) q (rq_queue s) (rq_request s) (rq_req_seq s) (rq_resp_seq s).

(* DCEP DATA_CHANNEL_OPEN message (_data_channel_open): lengths are UTF-8 byte lengths *)
Definition dcep_open (c : chan) : bytes :=
  let ctype := (if ch_ordered c then 0 else 128) +
               match ch_maxrt c, ch_maxlt c with Some _, _ => 1 | None, Some _ => 2 | None, None => 0 end in
  let rel := match ch_maxrt c, ch_maxlt c with Some r, _ => r | None, Some l => l | None, None => 0 end in
  be8 DATA_CHANNEL_OPEN ++ be8 ctype ++ be16 0 ++ be32 rel ++ be16 (len (ch_label c)) ++ be16 (len (ch_proto c))
  ++ ch_label c ++ ch_proto c.

(* the parsing half of _data_channel_receive for an OPEN message of >= 12 bytes *)
Record open_params := mkOpen { op_ordered : bool; op_maxrt : option Z; op_maxlt : option Z; op_label : bytes; op_proto : bytes }.

Definition dcep_parse_open (data : bytes) : option open_params :=
  match u8 data 1, u32 data 4, u16 data 8, u16 data 10 with
  | Some ctype, Some rel, Some ll, Some pl =>
      let label := slice data 12 (12 + Z.to_nat ll) in
      let proto := slice data (12 + Z.to_nat ll) (12 + Z.to_nat ll + Z.to_nat pl) in
      let low := Z.land ctype 3 in
      Some (mkOpen (Z.eqb (Z.land ctype 128) 0)
                   (if Z.eqb low 1 then Some rel else None)
                   (if Z.eqb low 1 then None else if Z.eqb low 2 then Some rel else None)
                   label proto)
  | _, _, _, _ => None
  end.

(* ---- _data_channel_flush ------------------------------------------------------ *)
(* the `while stream_id in self._data_channels: stream_id += 2` loop *)
Fixpoint pick_id (fuel : nat) (t : list (Z * nat)) (i : Z) : Z :=
  match fuel with
  | O => i
  | S f => match tget t i with Some _ => pick_id f t (i + 2) | None => i end
  end.

(* oracle: for each _send, is _outbound_queue non-empty afterwards? (exhausted list = empty) *)
Fixpoint flush_loop (fuel : nat) (s : st) (oracle : list bool) : st * list event :=
  match fuel with
  | O => (s, [])
  | S f =>
      match queue s with
      | [] => (s, [])
      | (h, pp, data) :: q' =>
          let s1 := set_queue s q' in
          let c := getc s1 h in
          let '(s2, sidv) :=
            match ch_id c with
            | Some i => (s1, i)
            | None =>
                let i := pick_id (S (length (table s1))) (table s1) (dc_id s1) in
                (setc (set_table s1 (tset (table s1) i h)) h (with_id c (Some i)), i)
            end in
          let c2 := getc s2 h in
          let '(s3, evs) :=
            if Z.eqb pp WEBRTC_DCEP then (s2, [EvSend sidv pp data true None None])
            else
              let '(s', e) := add_buffered s2 h (- len data) in
              (* `if channel.maxPacketLifeTime:` - a lifetime of 0 sets no expiry *)
              (s', EvSend sidv pp data (ch_ordered c2) (ch_maxrt c2)
                          (match ch_maxlt c2 with Some 0 => None | x => x end) :: e) in
          let busy := match oracle with b :: _ => b | [] => false end in
          if busy then (s3, evs)
          else let '(s4, evs2) := flush_loop f s3 (tl oracle) in (s4, evs ++ evs2)
      end
  end.

(* oracle = entry test :: one boolean per _send *)
Definition flush (s : st) (oracle : list bool) : st * list event :=
  if established s && negb (match oracle with b :: _ => b | [] => false end)
  then flush_loop (S (length (queue s))) s (tl oracle) else (s, []).

(* ---- application operations ------------------------------------------------------ *)
Definition add_chan (s : st) (c : chan) : st * nat :=
  (mkSt (established s) (dc_id s) (chans s ++ [c]) (table s) (queue s) (rq_queue s) (rq_request s)
        (rq_req_seq s) (rq_resp_seq s), length (chans s)).

(* RTCDataChannel(transport, parameters): negotiated -> _data_channel_add_negotiated, else _data_channel_open.
   A constructor that raises leaves no channel behind. *)
Definition create (s : st) (neg : bool) (id : option Z) (ordered : bool) (maxrt maxlt : option Z)
           (label proto : bytes) : st * list event :=
  let c := mkChan id Connecting 0 0 neg ordered maxrt maxlt label proto in
  let used := match id with Some i => match tget (table s) i with Some _ => true | None => false end | None => false end in
  if used then (s, [EvRaise 1])
  else
    let '(s1, h) := add_chan s c in
    let s2 := match id with Some i => set_table s1 (tset (table s1) i h) | None => s1 end in
    if neg then
      if established s2 then set_ready s2 h Open else (s2, [])
    else
      (set_queue s2 (queue s2 ++ [(h, WEBRTC_DCEP, dcep_open c)]), [EvSchedFlush]).

(* RTCDataChannel.send -> _data_channel_send; `data` is the user data already chosen by the
   PPID mapping (a one-byte placeholder for empty values) *)
Definition app_send (s : st) (h : nat) (pp : Z) (data : bytes) : st * list event :=
  if negb (rstate_eqb (ch_state (getc s h)) Open) then (s, [EvRaise 2])
  else
    let '(s1, e) := add_buffered s h (len data) in
    (set_queue s1 (queue s1 ++ [(h, pp, data)]), e ++ [EvSchedFlush]).

(* _data_channel_closed(stream_id): pop + closed; an absent stream is ignored *)
Definition chan_closed (s : st) (sidv : Z) : st * list event :=
  match tget (table s) sidv with
  | None => (s, [])
  | Some h =>
      (* the stream has been reset: messages still queued for the channel are dropped *)
      let s1 := set_table s (tdel (table s) sidv) in
      set_ready (set_queue s1 (filter (fun it => negb (Nat.eqb (fst (fst it)) h)) (queue s1))) h Closed
  end.

(* _data_channel_close: the branch taken when the association is not established or the
   channel has no stream id yet: drop queued messages, unregister, mark closed *)
Definition close_local (s1 : st) (h : nat) (id : option Z) : st * list event :=
  let s2 := set_queue s1 (filter (fun it => negb (Nat.eqb (fst (fst it)) h)) (queue s1)) in
  match id with
  | Some i =>
      match tget (table s2) i with
      | None => (s2, [EvRaise 3])       (* dict.pop KeyError *)
      | Some _ => set_ready (set_table s2 (tdel (table s2) i)) h Closed
      end
  | None => set_ready s2 h Closed
  end.

(* hs: the association is being set up (COOKIE_WAIT / COOKIE_ECHOED) - an input, like the congestion oracle *)
Definition close_body (s : st) (h : nat) (hs : bool) : st * list event :=
  let c := getc s h in
  let '(s1, e1) := set_ready s h Closing in
  match established s1 || hs, ch_id c with
  | true, Some i =>
      let s2 := mkSt (established s1) (dc_id s1) (chans s1) (table s1) (queue s1) (rq_queue s1 ++ [i])
                     (rq_request s1) (rq_req_seq s1) (rq_resp_seq s1) in
      (s2, e1 ++ if Nat.eqb (length (rq_queue s2)) 1 then [EvSchedReconfig] else [])
  | _, id => let '(s4, e2) := close_local s1 h id in (s4, e1 ++ e2)
  end.

Definition chan_close (s : st) (h : nat) (hs : bool) : st * list event :=
  match ch_state (getc s h) with
  | Closing | Closed => (s, [])
  | _ => close_body s h hs
  end.

(* _transmit_reconfig *)
Definition transmit_reconfig (s : st) : st * list event :=
  match rq_request s with
  | Some _ => (s, [])
  | None =>
      if established s && negb (Nat.eqb (length (rq_queue s)) 0) then
        let n := Z.to_nat RECONFIG_MAX_STREAMS in
        let strs := firstn n (rq_queue s) in
        (mkSt (established s) (dc_id s) (chans s) (table s) (queue s) (skipn n (rq_queue s))
              (Some (rq_req_seq s, strs)) (tsn_plus_one (rq_req_seq s)) (rq_resp_seq s),
         [EvReconfigRequest (rq_req_seq s) strs])
      else (s, [])
  end.

(* _receive_reconfig_param: incoming StreamResetOutgoingParam *)
Fixpoint reset_streams (s : st) (strs : list Z) : st * list event :=
  match strs with
  | [] => (s, [])
  | i :: strs' =>
      let '(s1, e1) := match tget (table s) i with Some h => chan_close s h false | None => (s, []) end in
      let '(s2, e2) := reset_streams s1 strs' in (s2, e1 ++ e2)
  end.

Definition recv_reset_request (s : st) (seq : Z) (strs : list Z) : st * list event :=
  let '(s1, e) := reset_streams s strs in
  (mkSt (established s1) (dc_id s1) (chans s1) (table s1) (queue s1) (rq_queue s1) (rq_request s1)
        (rq_req_seq s1) seq, e ++ [EvReconfigResponse seq]).

Fixpoint closed_streams (s : st) (strs : list Z) : st * list event :=
  match strs with
  | [] => (s, [])
  | i :: strs' =>
      let '(s1, e1) := chan_closed s i in
      let '(s2, e2) := closed_streams s1 strs' in (s2, e1 ++ e2)
  end.

(* incoming StreamResetResponseParam *)
Definition recv_reset_response (s : st) (seq : Z) : st * list event :=
  match rq_request s with
  | Some (rs, strs) =>
      if Z.eqb seq rs then
        let '(s1, e1) := closed_streams s strs in
        let s2 := mkSt (established s1) (dc_id s1) (chans s1) (table s1) (queue s1) (rq_queue s1) None
                       (rq_req_seq s1) (rq_resp_seq s1) in
        let '(s3, e2) := transmit_reconfig s2 in (s3, e1 ++ e2)
      else (s, [])
  | None => (s, [])
  end.

(* _set_state(ESTABLISHED) *)
Fixpoint open_negotiated (s : st) (t : list (Z * nat)) : st * list event :=
  match t with
  | [] => (s, [])
  | (_, h) :: t' =>
      let c := getc s h in
      let '(s1, e1) := if ch_neg c && rstate_eqb (ch_state c) Connecting then set_ready s h Open else (s, []) in
      let '(s2, e2) := open_negotiated s1 t' in (s2, e1 ++ e2)
  end.

Definition set_established (s : st) : st * list event :=
  let s0 := mkSt true (dc_id s) (chans s) (table s) (queue s) (rq_queue s) (rq_request s) (rq_req_seq s) (rq_resp_seq s) in
  let '(s1, e) := open_negotiated s0 (table s0) in
  (* stream resets queued by close() during the handshake are sent now *)
  (s1, e ++ [EvSchedFlush] ++ match rq_queue s1 with [] => [] | _ => [EvSchedReconfig] end).

(* _set_state(CLOSED) *)
Fixpoint close_queued (s : st) (q : list (nat * Z * bytes)) : st * list event :=
  match q with
  | [] => (s, [])
  | (h, _, _) :: q' =>
      let '(s1, e1) := set_ready s h Closed in
      let '(s2, e2) := close_queued s1 q' in (s2, e1 ++ e2)
  end.

Definition set_closed (s : st) : st * list event :=
  let s0 := mkSt false (dc_id s) (chans s) (table s) (queue s) (rq_queue s) (rq_request s) (rq_req_seq s) (rq_resp_seq s) in
  let '(s1, e1) := closed_streams s0 (map fst (table s0)) in
  let '(s2, e2) := close_queued s1 (queue s1) in
  (set_queue s2 [], e1 ++ e2).

(* _data_channel_receive *)
Definition recv_dcep (s : st) (sidv : Z) (data : bytes) (text_ok : bool) (oracle : list bool) : st * list event :=
  match data with
  | [] => (s, [])
  | msg_type :: _ =>
      if Z.eqb msg_type DATA_CHANNEL_OPEN && (12 <=? len data) then
        match tget (table s) sidv with
        | Some _ => (s, [])
        | None =>
            match dcep_parse_open data with
            | None => (s, [EvRaise 4])
            | Some p =>
                if negb text_ok then (s, [])
                else
                  let c := mkChan (Some sidv) Connecting 0 0 false (op_ordered p) (op_maxrt p) (op_maxlt p)
                                  (op_label p) (op_proto p) in
                  let '(s1, h) := add_chan s c in
                  let '(s2, e1) := set_ready s1 h Open in
                  let s3 := set_table s2 (tset (table s2) sidv h) in
                  let s4 := set_queue s3 (queue s3 ++ [(h, WEBRTC_DCEP, be8 DATA_CHANNEL_ACK)]) in
                  let '(s5, e2) := flush s4 oracle in
                  (s5, e1 ++ e2 ++ [EvDataChannel h])
            end
        end
      else if Z.eqb msg_type DATA_CHANNEL_ACK then
        match tget (table s) sidv with
        | Some h => if rstate_eqb (ch_state (getc s h)) Connecting then set_ready s h Open else (s, [])
        | None => (s, [])
        end
      else (s, [])
  end.

Definition recv_user (s : st) (sidv pp : Z) (data : bytes) (text_ok : bool) : st * list event :=
  match tget (table s) sidv with
  | None => (s, [])
  | Some h =>
      if Z.eqb pp WEBRTC_STRING then (s, if text_ok then [EvMessage h pp data] else [])
      else if Z.eqb pp WEBRTC_STRING_EMPTY then (s, [EvMessage h pp []])
      else if Z.eqb pp WEBRTC_BINARY then (s, [EvMessage h pp data])
      else if Z.eqb pp WEBRTC_BINARY_EMPTY then (s, [EvMessage h pp []])
      else (s, [])
  end.

Inductive input :=
| ICreate (neg : bool) (id : option Z) (ordered : bool) (maxrt maxlt : option Z) (label proto : bytes)
| ISend (h : nat) (pp : Z) (data : bytes)
| IClose (h : nat) (hs : bool)
| IThreshold (h : nat) (v : Z)
| IFlush (oracle : list bool)
| ITransmitReconfig
| IEstablished
| IAssocClosed
| IRecv (sid pp : Z) (data : bytes) (text_ok : bool) (oracle : list bool)
| IResetRequest (seq : Z) (strs : list Z)
| IResetResponse (seq : Z)
| INotEstablished.      (* association leaves ESTABLISHED without closing (SHUTDOWN received) *)

Definition step (s : st) (i : input) : st * list event :=
  match i with
  | ICreate neg id ordered maxrt maxlt label proto => create s neg id ordered maxrt maxlt label proto
  | ISend h pp data => if Nat.ltb h (length (chans s)) then app_send s h pp data else (s, [])
  | IClose h hs => if Nat.ltb h (length (chans s)) then chan_close s h hs else (s, [])
  | IThreshold h v => if Nat.ltb h (length (chans s)) then (setc s h (with_thr (getc s h) v), []) else (s, [])
  | IFlush oracle => flush s oracle
  | ITransmitReconfig => transmit_reconfig s
  | IEstablished => set_established s
  | IAssocClosed => set_closed s
  | IRecv sidv pp data ok oracle =>
      if Z.eqb pp WEBRTC_DCEP then recv_dcep s sidv data ok oracle else recv_user s sidv pp data ok
  | IResetRequest seq strs => if established s then recv_reset_request s seq strs else (s, [])
  | IResetResponse seq => if established s then recv_reset_response s seq else (s, [])
  | INotEstablished =>
      (mkSt false (dc_id s) (chans s) (table s) (queue s) (rq_queue s) (rq_request s) (rq_req_seq s) (rq_resp_seq s), [])
  end.

Fixpoint run (s : st) (is : list input) : st * list (list event) :=
  match is with
  | [] => (s, [])
  | i :: is' => let '(s1, e) := step s i in let '(s2, es) := run s1 is' in (s2, e :: es)
  end.

Definition init (role_id : Z) (req_seq : Z) : st := mkSt false role_id [] [] [] [] None req_seq 0.

(* ---- s-expression glue --------------------------------------------------------- *)
Definition sx_oz (x : sx) : option Z := sx_opt sx_z x.
Definition bools (x : sx) : list bool := map sx_b (sx_l x).

Definition input_of_sx (x : sx) : input :=
  let t := sx_z (sx_nth x 0) in
  let n k := Z.to_nat (sx_z (sx_nth x k)) in
  if Z.eqb t 0 then ICreate (sx_b (sx_nth x 1)) (sx_oz (sx_nth x 2)) (sx_b (sx_nth x 3)) (sx_oz (sx_nth x 4))
                            (sx_oz (sx_nth x 5)) (sx_zs (sx_nth x 6)) (sx_zs (sx_nth x 7))
  else if Z.eqb t 1 then ISend (n 1%nat) (sx_z (sx_nth x 2)) (sx_zs (sx_nth x 3))
  else if Z.eqb t 2 then IClose (n 1%nat) (sx_b (sx_nth x 2))
  else if Z.eqb t 3 then IThreshold (n 1%nat) (sx_z (sx_nth x 2))
  else if Z.eqb t 4 then IFlush (bools (sx_nth x 1))
  else if Z.eqb t 5 then ITransmitReconfig
  else if Z.eqb t 6 then IEstablished
  else if Z.eqb t 7 then IAssocClosed
  else if Z.eqb t 8 then IRecv (sx_z (sx_nth x 1)) (sx_z (sx_nth x 2)) (sx_zs (sx_nth x 3)) (sx_b (sx_nth x 4)) (bools (sx_nth x 5))
  else if Z.eqb t 9 then IResetRequest (sx_z (sx_nth x 1)) (sx_zs (sx_nth x 2))
  else if Z.eqb t 10 then IResetResponse (sx_z (sx_nth x 1))
  else INotEstablished.

Definition sx_nat (n : nat) : sx := A (Z.of_nat n).
Definition sx_of_event (e : event) : sx :=
  match e with
  | EvOpen h => L [A 0; sx_nat h]
  | EvClose h => L [A 1; sx_nat h]
  | EvLow h => L [A 2; sx_nat h]
  | EvDataChannel h => L [A 3; sx_nat h]
  | EvMessage h pp d => L [A 4; sx_nat h; A pp; of_zs d]
  | EvSend i pp d o r l => L [A 5; A i; A pp; of_zs d; of_b o; of_opt A r; of_opt A l]
  | EvReconfigRequest q strs => L [A 6; A q; of_zs strs]
  | EvReconfigResponse q => L [A 7; A q]
  | EvSchedFlush => L [A 8]
  | EvSchedReconfig => L [A 9]
  | EvRaise k => L [A 10; A k]
  end.

Definition sx_of_chan (c : chan) : sx :=
  L [of_opt A (ch_id c); A (rank (ch_state c)); A (ch_buf c); A (ch_thr c); of_b (ch_ordered c);
     of_opt A (ch_maxrt c); of_opt A (ch_maxlt c); of_zs (ch_label c); of_zs (ch_proto c)].

Definition sx_of_st (s : st) : sx :=
  L [L (map sx_of_chan (chans s));
     L (map (fun kv => L [A (fst kv); sx_nat (snd kv)]) (table s));
     L (map (fun it => L [sx_nat (fst (fst it)); A (snd (fst it)); A (len (snd it))]) (queue s));
     of_zs (rq_queue s);
     match rq_request s with Some (q, strs) => L [A q; of_zs strs] | None => L [] end;
     A (rq_resp_seq s)].

Fixpoint run_sx (s : st) (is : list input) : list sx :=
  match is with
  | [] => []
  | i :: is' => let '(s1, e) := step s i in L [L (map sx_of_event e); sx_of_st s1] :: run_sx s1 is'
  end.

(* input: (role id, request seq, inputs) *)
Definition main (x : sx) : sx :=
  L (run_sx (init (sx_z (sx_nth x 0)) (sx_z (sx_nth x 1))) (map input_of_sx (sx_l (sx_nth x 2)))).
