(* Model of aiortc.rtcdtlstransport.RTCDtlsTransport: peer identity policy,
   SRTP key slicing, the start() decision sequence, the receive dispatch and
   the send guards (rtcdtlstransport.py 58-64, 405-546, 548-560, 624-716).

   Strings are lists of character codes, byte strings are lists of bytes.
   Everything OpenSSL / libsrtp / cryptography does is an *oracle*: a function
   argument or a field of the input event (certificate digests, handshake
   progress, selected SRTP profile, exported keying material, result of
   ssl.recv, result of unprotect, success of transport._send).  No proofs here.

   Domain: key_length, salt_length, idx >= 0 (Python's negative slice indices
   are not modelled); the data receiver / RTP receivers return normally; the
   DTLS retransmission time-out branch of _recv_next (no effect on any
   modelled field) is omitted. *)
From Coq Require Import ZArith List Bool.
From AV Require Import Lib.Sx Lib.Bytes Gen.Dtls.
Import ListNotations.
Local Open Scope Z_scope.

Definition str := list Z.

(* ---- str.lower() / str.upper() ------------------------------------------
   ASCII letters are mapped as usual.  The generated tables list the
   non-ASCII characters whose Python case mapping is made of ASCII characters
   only (e.g. U+FB00 "ff" ligature -> "FF", U+212A Kelvin sign -> "k"); every
   other non-ASCII character is left unchanged, which is equivalent to Python
   as far as equality with an ASCII string is concerned (its Python mapping
   contains a non-ASCII character). *)
Fixpoint special (c : Z) (t : list (Z * list Z)) : option (list Z) :=
  match t with
  | [] => None
  | (k, v) :: t' => if Z.eqb c k then Some v else special c t'
  end.

Definition upper_char (c : Z) : list Z :=
  if (97 <=? c) && (c <=? 122) then [c - 32]
  else match special c dtls_UPPER_SPECIAL with Some l => l | None => [c] end.

Definition lower_char (c : Z) : list Z :=
  if (65 <=? c) && (c <=? 90) then [c + 32]
  else match special c dtls_LOWER_SPECIAL with Some l => l | None => [c] end.

Definition str_upper (s : str) : str := flat_map upper_char s.
Definition str_lower (s : str) : str := flat_map lower_char s.

Definition str_mem (s : str) (l : list str) : bool := existsb (bytes_eqb s) l.

(* ---- _validate_peer_identity (431-449) -----------------------------------
   digest = certificate_digest(peer certificate, .), only ever applied to a
   supported algorithm name.  Result true = the state is left alone,
   false = _set_state(FAILED). *)
Definition fingerprint := (str * str)%type.   (* (algorithm, value) *)

Fixpoint count_fingerprints (digest : str -> str) (fps : list fingerprint)
         (supported valid : Z) : Z * Z :=
  match fps with
  | [] => (supported, valid)
  | (alg, value) :: rest =>
      let algorithm := str_lower alg in
      if str_mem algorithm dtls_X509_DIGEST_ALGORITHMS then
        if bytes_eqb (str_upper value) (digest algorithm)
        then count_fingerprints digest rest (supported + 1) (valid + 1)
        else count_fingerprints digest rest (supported + 1) valid
      else count_fingerprints digest rest supported valid
  end.

Definition validate_identity (digest : str -> str) (fps : list fingerprint) : bool :=
  let '(supported, valid) := count_fingerprints digest fps 0 0 in
  negb ((supported =? 0) || negb (valid =? supported)).

(* ---- SRTPProtectionProfile.get_key_and_salt (58-64) ----------------------- *)
Record profile := mkProfile { p_name : bytes; p_key : Z; p_salt : Z }.

Definition get_key_and_salt (k s : Z) (src : bytes) (idx : Z) : bytes :=
  let key_start := idx * k in
  let salt_start := k * 2 + idx * s in
  slice src (Z.to_nat key_start) (Z.to_nat (key_start + k))
  ++ slice src (Z.to_nat salt_start) (Z.to_nat (salt_start + s)).

Inductive role := RAuto | RServer | RClient.

(* _setup_srtp 467-476: (tx key, rx key) *)
Definition setup_keys (r : role) (k s : Z) (view : bytes) : bytes * bytes :=
  match r with
  | RServer => (get_key_and_salt k s view 1, get_key_and_salt k s view 0)
  | _ => (get_key_and_salt k s view 0, get_key_and_salt k s view 1)
  end.

(* the for/else over self._srtp_profiles (455-466); get_selected_srtp_profile()
   may be None, which compares unequal to every profile name *)
Fixpoint find_profile (ps : list profile) (sel : option bytes) : option profile :=
  match ps with
  | [] => None
  | p :: ps' =>
      match sel with
      | Some n => if bytes_eqb (p_name p) n then Some p else find_profile ps' sel
      | None => find_profile ps' sel
      end
  end.

(* ---- transport state ---------------------------------------------------- *)
Inductive state := NEW | CONNECTING | CONNECTED | CLOSED | FAILED.

Definition state_eqb (a b : state) : bool :=
  match a, b with
  | NEW, NEW | CONNECTING, CONNECTING | CONNECTED, CONNECTED | CLOSED, CLOSED | FAILED, FAILED => true
  | _, _ => false
  end.

Record tr := mkTr {
  t_state : state;                 (* _state *)
  t_encrypted : bool;              (* encrypted *)
  t_role : role;                   (* _role *)
  t_profiles : list profile;       (* _srtp_profiles *)
  t_receiver : bool;               (* _data_receiver is not None *)
  t_tx_key : option bytes;         (* key of _tx_srtp, None = no session *)
  t_rx_key : option bytes;         (* key of _rx_srtp, None = no session *)
  t_profile : option bytes;        (* profile the sessions were created with *)
  t_pump : bool                    (* the __run task exists and is running *)
}.

Definition fresh (r : role) (ps : list profile) (receiver : bool) : tr :=
  mkTr NEW false r ps receiver None None None false.

Definition set_state (t : tr) (s : state) : tr :=
  mkTr s (t_encrypted t) (t_role t) (t_profiles t) (t_receiver t) (t_tx_key t) (t_rx_key t)
       (t_profile t) (t_pump t).

(* rtp.is_rtcp (rtp.py 218-219) *)
Definition is_rtcp (msg : bytes) : bool :=
  match u8 msg 1 with
  | Some b => (192 <=? b) && (b <=? 208)
  | None => false
  end.

(* ---- one datagram through _recv_next (624-672) ---------------------------- *)
Inductive ssl_recv := SslData (d : bytes) | SslZeroReturn | SslError.

Record dgram := mkDgram {
  dg_data : bytes;                 (* the datagram *)
  dg_ssl : ssl_recv;               (* outcome of _ssl.recv(1500) after bio_write *)
  dg_bio : bool;                   (* _write_ssl: bio_read returned data *)
  dg_send_ok : bool;               (* ... and transport._send did not raise *)
  dg_unprotect : option bytes      (* _rx_srtp.unprotect(_rtcp): None = pylibsrtp.Error *)
}.

Inductive rx_out :=
| RxNone                           (* nothing handed to anybody *)
| RxData (d : bytes)               (* _data_receiver._handle_data(d) *)
| RxRtp (d : bytes)                (* _handle_rtp_data(d) *)
| RxRtcp (d : bytes).              (* _handle_rtcp_data(d) *)

Inductive rx_res := RxOk (o : rx_out) | RxConnErr | RxCrash.

Definition nonempty (d : bytes) : bool := match d with [] => false | _ => true end.
Definition is_some {A} (o : option A) : bool := match o with Some _ => true | None => false end.

(* `guard` = the state test on the hand-over of decrypted application data.
   The repaired code is `recv_next true`; `recv_next false` is the code as it
   was before the repair (kept to state the defect, see Props/C04.v). *)
Definition recv_next (guard : bool) (t : tr) (g : dgram) : rx_res :=
  match u8 (dg_data g) 0 with
  | None => RxOk RxNone                               (* if not data: return *)
  | Some first_byte =>
      if (19 <? first_byte) && (first_byte <? 64) then
        if dg_bio g && negb (dg_send_ok g) then RxConnErr       (* _write_ssl -> transport._send raised *)
        else match dg_ssl g with
             | SslZeroReturn => RxConnErr                      (* data is None: raise ConnectionError *)
             | SslError => RxOk RxNone                         (* data = b"" *)
             | SslData d =>
                 if nonempty d && t_receiver t && (negb guard || state_eqb (t_state t) CONNECTED)
                 then RxOk (RxData d) else RxOk RxNone
             end
      else if (127 <? first_byte) && (first_byte <? 192) && is_some (t_rx_key t) then
        match dg_unprotect g with
        | None => RxOk RxNone                                   (* pylibsrtp.Error is caught *)
        | Some p => if is_rtcp (dg_data g) then RxOk (RxRtcp p) else RxOk (RxRtp p)
        end
      else RxOk RxNone
  end.

(* ---- _do_handshake (405-429) -------------------------------------------- *)
Inductive ice_ev := IceClosed | IceDgram (g : dgram).   (* transport._recv(): ConnectionError | data *)

Inductive hs_iter :=
| HsDone                                             (* do_handshake() returned *)
| HsSslError                                         (* SSL.Error *)
| HsWantRead (bio send_ok : bool) (e : ice_ev).      (* WantReadError: _write_ssl, _recv_next *)

Inductive hs_end :=
| HsEncrypted      (* loop left with encrypted = True *)
| HsFailed         (* _set_state(FAILED) *)
| HsPending        (* oracle script exhausted: still waiting for the peer *)
| HsCrashed.       (* another exception escaped *)

Fixpoint do_handshake (guard : bool) (t : tr) (script : list hs_iter) : hs_end * list rx_out :=
  match script with
  | [] => (HsPending, [])
  | HsDone :: _ => (HsEncrypted, [])
  | HsSslError :: _ => (HsFailed, [])
  | HsWantRead bio send_ok e :: rest =>
      if bio && negb send_ok then (HsFailed, [])
      else match e with
           | IceClosed => (HsFailed, [])
           | IceDgram g =>
               match recv_next guard t g with
               | RxConnErr => (HsFailed, [])
               | RxCrash => (HsCrashed, [])
               | RxOk o => let '(r, outs) := do_handshake guard t rest in (r, o :: outs)
               end
           end
  end.

(* ---- start() (496-546) --------------------------------------------------- *)
Record start_in := mkStartIn {
  si_controlling : bool;           (* transport.role == "controlling" *)
  si_fps : list fingerprint;       (* remoteParameters.fingerprints *)
  si_script : list hs_iter;        (* handshake oracle *)
  si_selected : option bytes;      (* _ssl.get_selected_srtp_profile() *)
  si_material : bytes              (* _ssl.export_keying_material(...) *)
}.

Inductive start_res :=
| StartCrash (t : tr) (outs : list rx_out)    (* an exception other than those handled escaped start() *)
| StartPending (t : tr) (outs : list rx_out)  (* start() is still awaiting the peer *)
| StartRet (t : tr) (outs : list rx_out).     (* start() returned *)

(* 509-513: "auto" is resolved from the ICE role *)
Definition start_role (t : tr) (i : start_in) : role :=
  match t_role t with
  | RAuto => if si_controlling i then RServer else RClient
  | x => x
  end.

(* the transport while the handshake runs (state CONNECTING, role resolved) *)
Definition connecting (t : tr) (i : start_in) (encrypted : bool) : tr :=
  mkTr CONNECTING encrypted (start_role t i) (t_profiles t) (t_receiver t) (t_tx_key t) (t_rx_key t)
       (t_profile t) (t_pump t).

Definition start (guard : bool) (digest : str -> str) (t : tr) (i : start_in) : start_res :=
  if negb (state_eqb (t_state t) NEW) then StartCrash t []          (* assert self._state == State.NEW *)
  else match si_fps i with
  | [] => StartCrash t []                                           (* assert len(fingerprints) *)
  | _ =>
    let t1 := connecting t i false in
    match do_handshake guard t1 (si_script i) with
    | (HsCrashed, outs) => StartCrash t1 outs
    | (HsPending, outs) => StartPending t1 outs
    | (HsFailed, outs) => StartRet (set_state t1 FAILED) outs
    | (HsEncrypted, outs) =>
        let t2 := connecting t i true in
        if negb (validate_identity digest (si_fps i)) then StartRet (set_state t2 FAILED) outs
        else match find_profile (t_profiles t2) (si_selected i) with
             | None => StartRet (set_state t2 FAILED) outs
             | Some p =>
                 let '(tx, rx) := setup_keys (t_role t2) (p_key p) (p_salt p) (si_material i) in
                 StartRet (mkTr CONNECTED true (t_role t2) (t_profiles t2) (t_receiver t2) (Some tx) (Some rx)
                                (Some (p_name p)) true) outs
             end
    end
  end.

(* the decision of start() as a function of the three stage outcomes:
   (final state, SRTP sessions installed, data pump started) *)
Definition start_decision (handshake identity srtp : bool) : state * bool * bool :=
  if handshake && identity && srtp then (CONNECTED, true, true) else (FAILED, false, false).

(* ---- after start(): application calls and the data pump -------------------- *)
Inductive op :=
| OpSendRtp (data : bytes) (protect_ok send_ok : bool)   (* _send_rtp(data) *)
| OpSendData (data : bytes) (bio send_ok : bool)         (* _send_data(data) *)
| OpDgram (g : dgram)                                    (* a datagram arrives on the ICE transport *)
| OpIceClose                                             (* the ICE transport closes *)
| OpStop.                                                (* stop() *)

Inductive out :=
| OConnErr                       (* the call raised ConnectionError *)
| OCrash                         (* the call raised something else / the pump died with it *)
| OSentRtp (rtcp : bool)         (* protected (protect_rtcp / protect) and sent *)
| OSentData                      (* handed to _ssl.send and flushed *)
| ORx (o : rx_out)               (* the pump processed a datagram *)
| OPumpEnd                       (* the pump ended with ConnectionError: state CLOSED *)
| OIgnored.                      (* nobody is reading the ICE transport / nothing to do *)

Definition end_pump (t : tr) : tr :=
  mkTr CLOSED (t_encrypted t) (t_role t) (t_profiles t) (t_receiver t) (t_tx_key t) (t_rx_key t)
       (t_profile t) false.

Definition step (guard : bool) (t : tr) (o : op) : tr * out :=
  match o with
  | OpSendRtp data protect_ok send_ok =>
      if negb (state_eqb (t_state t) CONNECTED) then (t, OConnErr)
      else if negb protect_ok then (t, OCrash)                 (* pylibsrtp.Error from protect *)
      else if negb send_ok then (t, OConnErr)
      else (t, OSentRtp (is_rtcp data))
  | OpSendData data bio send_ok =>
      if negb (state_eqb (t_state t) CONNECTED) then (t, OConnErr)
      else if bio && negb send_ok then (t, OConnErr)
      else (t, OSentData)
  | OpDgram g =>
      if t_pump t then
        match recv_next guard t g with
        | RxOk x => (t, ORx x)
        | RxConnErr => (end_pump t, OPumpEnd)
        | RxCrash => (end_pump t, OCrash)
        end
      else (t, OIgnored)
  | OpIceClose => if t_pump t then (end_pump t, OPumpEnd) else (t, OIgnored)
  | OpStop => if t_pump t then (end_pump t, OPumpEnd) else (t, OIgnored)
  end.

Fixpoint run (guard : bool) (t : tr) (ops : list op) : tr * list out :=
  match ops with
  | [] => (t, [])
  | o :: ops' => let '(t1, x) := step guard t o in
                 let '(t2, xs) := run guard t1 ops' in (t2, x :: xs)
  end.

(* ---- s-expression glue ---------------------------------------------------- *)
Definition role_of_z (z : Z) : role := if Z.eqb z 1 then RServer else if Z.eqb z 2 then RClient else RAuto.
Definition z_of_role (r : role) : Z := match r with RAuto => 0 | RServer => 1 | RClient => 2 end.
Definition z_of_state (s : state) : Z :=
  match s with
  | NEW => dtls_STATE_NEW | CONNECTING => dtls_STATE_CONNECTING | CONNECTED => dtls_STATE_CONNECTED
  | CLOSED => dtls_STATE_CLOSED | FAILED => dtls_STATE_FAILED
  end.

Definition fp_of_sx (x : sx) : fingerprint := (sx_zs (sx_nth x 0), sx_zs (sx_nth x 1)).

(* digest oracle given as an association list (algorithm name, digest); absent = "" *)
Fixpoint digest_of (tbl : list (str * str)) (a : str) : str :=
  match tbl with
  | [] => []
  | (k, v) :: tbl' => if bytes_eqb k a then v else digest_of tbl' a
  end.

Definition profile_of_sx (x : sx) : profile :=
  mkProfile (sx_zs (sx_nth x 0)) (sx_z (sx_nth x 1)) (sx_z (sx_nth x 2)).

(* profiles are sent either as an index into the generated table (A i) or in full *)
Definition profile_ref (x : sx) : profile :=
  match x with
  | A i => match nth_error dtls_SRTP_PROFILES (Z.to_nat i) with
           | Some (n, k, s) => mkProfile n k s
           | None => mkProfile [] 0 0
           end
  | L _ => profile_of_sx x
  end.

Definition dgram_of_sx (x : sx) : dgram :=
  let r := sx_nth x 1 in
  let k := sx_z (sx_nth r 0) in
  mkDgram (sx_zs (sx_nth x 0))
          (if Z.eqb k 0 then SslData (sx_zs (sx_nth r 1)) else if Z.eqb k 1 then SslZeroReturn else SslError)
          (sx_b (sx_nth x 2)) (sx_b (sx_nth x 3)) (sx_opt sx_zs (sx_nth x 4)).

Definition hs_of_sx (x : sx) : hs_iter :=
  let k := sx_z (sx_nth x 0) in
  if Z.eqb k 0 then HsDone
  else if Z.eqb k 1 then HsSslError
  else HsWantRead (sx_b (sx_nth x 1)) (sx_b (sx_nth x 2))
                  (match sx_nth x 3 with
                   | L [] => IceClosed
                   | g => IceDgram (dgram_of_sx g)
                   end).

Definition op_of_sx (x : sx) : op :=
  let k := sx_z (sx_nth x 0) in
  if Z.eqb k 0 then OpSendRtp (sx_zs (sx_nth x 1)) (sx_b (sx_nth x 2)) (sx_b (sx_nth x 3))
  else if Z.eqb k 1 then OpSendData (sx_zs (sx_nth x 1)) (sx_b (sx_nth x 2)) (sx_b (sx_nth x 3))
  else if Z.eqb k 2 then OpDgram (dgram_of_sx (sx_nth x 1))
  else if Z.eqb k 3 then OpIceClose
  else OpStop.

Definition sx_of_rx (o : rx_out) : sx :=
  match o with
  | RxNone => L [A 0]
  | RxData d => L [A 1; of_zs d]
  | RxRtp d => L [A 2; of_zs d]
  | RxRtcp d => L [A 3; of_zs d]
  end.

Definition sx_of_out (o : out) : sx :=
  match o with
  | OConnErr => L [A 0]
  | OCrash => L [A 1]
  | OSentRtp r => L [A 2; of_b r]
  | OSentData => L [A 3]
  | ORx x => L [A 4; sx_of_rx x]
  | OPumpEnd => L [A 5]
  | OIgnored => L [A 6]
  end.

Definition sx_of_tr (t : tr) : sx :=
  L [A (z_of_state (t_state t)); of_b (t_encrypted t); A (z_of_role (t_role t));
     of_opt of_zs (t_tx_key t); of_opt of_zs (t_rx_key t); of_opt of_zs (t_profile t); of_b (t_pump t)].

Definition start_in_of_sx (x : sx) : start_in :=
  mkStartIn (sx_b (sx_nth x 0)) (map fp_of_sx (sx_l (sx_nth x 1)))
            (map hs_of_sx (sx_l (sx_nth x 2))) (sx_opt sx_zs (sx_nth x 3)) (sx_zs (sx_nth x 4)).

(* input (kind ...):
   0 fps digests                      -> (b)            validate_identity
   1 k s src idx                      -> bytes          get_key_and_salt
   2 role profiles receiver digests starts ops
                                      -> (start results, op outputs, final transport)
   3 side side                        -> the same for the two sides of an end-to-end run (each a kind 2 input)
     where starts is a list of start() calls made one after the other on the
     same object (the second one exercises the assert) *)
Definition run_starts (digest : str -> str) :=
  fix go (t : tr) (l : list start_in) : tr * list sx :=
    match l with
    | [] => (t, [])
    | i :: l' =>
        let '(code, t1, outs) := match start true digest t i with
                                 | StartCrash t1 outs => (1, t1, outs)
                                 | StartPending t1 outs => (2, t1, outs)
                                 | StartRet t1 outs => (0, t1, outs)
                                 end in
        let '(t2, xs) := go t1 l' in
        (t2, L [A code; sx_of_tr t1; L (map sx_of_rx outs)] :: xs)
    end.

Definition main_transport (x : sx) : sx :=
  let t0 := fresh (role_of_z (sx_z (sx_nth x 1))) (map profile_ref (sx_l (sx_nth x 2))) (sx_b (sx_nth x 3)) in
  let tbl := map fp_of_sx (sx_l (sx_nth x 4)) in
  let '(t1, starts) := run_starts (digest_of tbl) t0 (map start_in_of_sx (sx_l (sx_nth x 5))) in
  let '(t2, outs) := run true t1 (map op_of_sx (sx_l (sx_nth x 6))) in
  L [L starts; L (map sx_of_out outs); sx_of_tr t2].

Definition main (x : sx) : sx :=
  let kind := sx_z (sx_nth x 0) in
  if Z.eqb kind 0 then
    let tbl := map fp_of_sx (sx_l (sx_nth x 2)) in
    L [of_b (validate_identity (digest_of tbl) (map fp_of_sx (sx_l (sx_nth x 1))))]
  else if Z.eqb kind 1 then
    of_zs (get_key_and_salt (sx_z (sx_nth x 1)) (sx_z (sx_nth x 2)) (sx_zs (sx_nth x 3)) (sx_z (sx_nth x 4)))
  else if Z.eqb kind 2 then main_transport x
  else L [main_transport (sx_nth x 1); main_transport (sx_nth x 2)].
