(* Model of the RTCP half of aiortc/rtp.py (property C07; parser totality for C05):
     pack_packets_lost / unpack_packets_lost            rtp.py 157-166
     pack_rtcp_packet                                   rtp.py 169-171
     pack_remb_fci / unpack_remb_fci                    rtp.py 174-215
     RtcpReceiverInfo, RtcpSenderInfo                   rtp.py 339-395
     RtcpByePacket, RtcpPsfbPacket, RtcpRrPacket,
     RtcpRtpfbPacket (repaired NACK arithmetic),
     RtcpSdesPacket, RtcpSrPacket  __bytes__ / parse    rtp.py 404-585
     RtcpPacket.parse (compound)                        rtp.py 598-642
   Byte strings are list Z; struct.error / IndexError / AssertionError are
   `Crash`, ValueError is `ValueErr`.  Positions into `data` are replaced by the
   remaining suffix (`rest`); slices are relative to it.  No proofs here. *)
From Coq Require Import ZArith List Bool.
From AV Require Import Lib.Sx Lib.Bytes Lib.RtpX Gen.RtpConst.
Import ListNotations.
Local Open Scope Z_scope.

(* ------------------------------------------------------------ packets_lost *)
(* pack("!l", count)[1:] *)
Definition pack_packets_lost (count : Z) : result bytes :=
  if i32ok count then Ok (be24 count) else Crash.

(* d[0] & 0x80 selects the sign byte; unpack("!l", ...) needs exactly 4 bytes *)
Definition unpack_packets_lost (d : bytes) : result Z :=
  match u8 d 0 with
  | None => Crash
  | Some d0 =>
      if negb (Nat.eqb (length d) 3) then Crash
      else match u24 d 0 with
           | Some v => Ok (if Z.land d0 128 =? 0 then v else v - 16777216)
           | None => Crash
           end
  end.

(* ------------------------------------------------------------ pack_rtcp_packet *)
Definition pack_rtcp_packet (packet_type count : Z) (payload : bytes) : result bytes :=
  if negb (len payload mod 4 =? 0) then Crash            (* assert *)
  else
    let b0 := Z.lor (Z.shiftl 2 6) count in
    let words := len payload / 4 in
    if u8ok b0 && u8ok packet_type && u16ok words
    then Ok (be8 b0 ++ be8 packet_type ++ be16 words ++ payload)
    else Crash.

(* ------------------------------------------------------------ REMB *)
(* while mantissa > 0x3FFFF: mantissa >>= 1; exponent += 1 *)
Fixpoint remb_loop (fuel : nat) (mantissa exponent : Z) : result (Z * Z) :=
  match fuel with
  | O => OutOfFuel
  | S f => if 262143 <? mantissa then remb_loop f (Z.shiftr mantissa 1) (exponent + 1)
           else Ok (mantissa, exponent)
  end.

Definition remb_fuel (bitrate : Z) : nat := S (Z.to_nat (Z.log2 bitrate)).

Definition pack_remb_fci (bitrate : Z) (ssrcs : list Z) : result bytes :=
  do (mantissa, exponent) <- remb_loop (remb_fuel bitrate) bitrate 0;
  let n := zlen ssrcs in
  let b1 := Z.lor (Z.shiftl exponent 2) (Z.shiftr mantissa 16) in
  let lo := Z.land mantissa 65535 in
  if u8ok n && u8ok b1 && u16ok lo then
    do tail <- be32s ssrcs;
    Ok ([82; 69; 77; 66] ++ be8 n ++ be8 b1 ++ be16 lo ++ tail)
  else Crash.

Definition unpack_remb_fci (data : bytes) : result (Z * list Z) :=
  if (Nat.ltb (length data) 8) || negb (bytes_eqb (slice data 0 4) [82; 69; 77; 66])
  then ValueErr
  else match u8 data 4, u8 data 5, u8 data 6, u8 data 7 with
       | Some cnt, Some d5, Some d6, Some d7 =>
           if len data <? 8 + cnt * 4 then ValueErr
           else
             let exponent := Z.shiftr (Z.land d5 252) 2 in
             let mantissa := Z.lor (Z.lor (Z.shiftl (Z.land d5 3) 16) (Z.shiftl d6 8)) d7 in
             let bitrate := Z.shiftl mantissa exponent in
             match u32s data 8 (Z.to_nat cnt) with
             | Some l => Ok (bitrate, l)
             | None => Crash
             end
       | _, _, _, _ => Crash
       end.

(* ------------------------------------------------------------ report blocks *)
Record rinfo := mkRinfo {
  ri_ssrc : Z; ri_fraction_lost : Z; ri_packets_lost : Z; ri_highest_sequence : Z;
  ri_jitter : Z; ri_lsr : Z; ri_dlsr : Z }.

Definition rinfo_bytes (r : rinfo) : result bytes :=
  if u32ok (ri_ssrc r) && u8ok (ri_fraction_lost r) then
    do pl <- pack_packets_lost (ri_packets_lost r);
    if u32ok (ri_highest_sequence r) && u32ok (ri_jitter r) && u32ok (ri_lsr r) && u32ok (ri_dlsr r)
    then Ok (be32 (ri_ssrc r) ++ be8 (ri_fraction_lost r) ++ pl ++ be32 (ri_highest_sequence r)
             ++ be32 (ri_jitter r) ++ be32 (ri_lsr r) ++ be32 (ri_dlsr r))
    else Crash
  else Crash.

(* unpack("!LB", data[0:5]); unpack_packets_lost(data[5:8]); unpack("!LLLL", data[8:]) *)
Definition rinfo_parse (data : bytes) : result rinfo :=
  if negb (Nat.eqb (length data) 24) then Crash
  else match u32 data 0, u8 data 4, u32 data 8, u32 data 12, u32 data 16, u32 data 20 with
       | Some ssrc, Some fl, Some hs, Some jit, Some lsr, Some dlsr =>
           do pl <- unpack_packets_lost (slice data 5 8);
           Ok (mkRinfo ssrc fl pl hs jit lsr dlsr)
       | _, _, _, _, _, _ => Crash
       end.

Record sinfo := mkSinfo { si_ntp : Z; si_rtp : Z; si_packets : Z; si_octets : Z }.

Definition sinfo_bytes (s : sinfo) : result bytes :=
  if u64ok (si_ntp s) && u32ok (si_rtp s) && u32ok (si_packets s) && u32ok (si_octets s)
  then Ok (be64 (si_ntp s) ++ be32 (si_rtp s) ++ be32 (si_packets s) ++ be32 (si_octets s))
  else Crash.

(* unpack("!QLLL", data) *)
Definition sinfo_parse (data : bytes) : result sinfo :=
  if negb (Nat.eqb (length data) 20) then Crash
  else match u64 data 0, u32 data 8, u32 data 12, u32 data 16 with
       | Some a, Some b, Some c, Some d => Ok (mkSinfo a b c d)
       | _, _, _, _ => Crash
       end.

Fixpoint rinfos_bytes (l : list rinfo) : result bytes :=
  match l with
  | [] => Ok []
  | r :: l' => do a <- rinfo_bytes r; do b <- rinfos_bytes l'; Ok (a ++ b)
  end.

(* for r in range(count): reports.append(RtcpReceiverInfo.parse(data[pos:pos+24])); pos += 24 *)
Fixpoint rinfos_parse (count : nat) (rest : bytes) : result (list rinfo) :=
  match count with
  | O => Ok []
  | S c => do r <- rinfo_parse (firstn 24 rest);
           do l <- rinfos_parse c (skipn 24 rest);
           Ok (r :: l)
  end.

(* ------------------------------------------------------------ packets *)
Definition sdes_item := (Z * bytes)%type.
Definition sdes_chunk := (Z * list sdes_item)%type.

Inductive rtcp :=
| Sr (ssrc : Z) (info : sinfo) (reports : list rinfo)
| Rr (ssrc : Z) (reports : list rinfo)
| Sdes (chunks : list sdes_chunk)
| Bye (sources : list Z)
| Rtpfb (fmt ssrc media_ssrc : Z) (lost : list Z)
| Psfb (fmt ssrc media_ssrc : Z) (fci : bytes).

(* ---- RtcpRtpfbPacket: generic NACK (after the repair: arithmetic mod 2^16) *)
(* for p in lost[1:]: d = (p - pid - 1) & 0xFFFF; if d < 16: blp |= 1 << d
   else: emit (pid, blp); pid = p; blp = 0   -- final emit after the loop *)
Fixpoint nack_entries (pid blp : Z) (rest : list Z) : list (Z * Z) :=
  match rest with
  | [] => [(pid, blp)]
  | p :: rest' =>
      let d := Z.land (p - pid - 1) 65535 in
      if d <? 16 then nack_entries pid (Z.lor blp (Z.shiftl 1 d)) rest'
      else (pid, blp) :: nack_entries p 0 rest'
  end.

(* pack("!HH", pid, blp) for every entry *)
Fixpoint nack_pack (l : list (Z * Z)) : result bytes :=
  match l with
  | [] => Ok []
  | (pid, blp) :: l' =>
      if u16ok pid && u16ok blp then do r <- nack_pack l'; Ok (be16 pid ++ be16 blp ++ r) else Crash
  end.

Definition d16 : list Z := [0; 1; 2; 3; 4; 5; 6; 7; 8; 9; 10; 11; 12; 13; 14; 15].

(* lost.append(pid); for d in range(16): if (blp >> d) & 1: lost.append((pid + d + 1) & 0xFFFF) *)
Definition nack_expand (pid blp : Z) : list Z :=
  pid :: map (fun d => Z.land (pid + d + 1) 65535)
             (filter (fun d => negb (Z.land (Z.shiftr blp d) 1 =? 0)) d16).

(* for pos in range(8, len(data), 4): pid, blp = unpack("!HH", data[pos:pos+4]) *)
Fixpoint nack_parse (rest : bytes) : result (list Z) :=
  match rest with
  | [] => Ok []
  | a :: b :: c :: d :: rest' =>
      do l <- nack_parse rest';
      Ok (nack_expand (a * 256 + b) (c * 256 + d) ++ l)
  | _ => Crash
  end.

(* ---- RtcpSdesPacket *)
Fixpoint sdes_items_bytes (items : list sdes_item) : result bytes :=
  match items with
  | [] => Ok []
  | (t, v) :: items' =>
      if u8ok t && u8ok (len v) then
        do r <- sdes_items_bytes items'; Ok (be8 t ++ be8 (len v) ++ v ++ r)
      else Crash
  end.

Fixpoint sdes_chunks_bytes (chunks : list sdes_chunk) : result bytes :=
  match chunks with
  | [] => Ok []
  | (ssrc, items) :: chunks' =>
      if u32ok ssrc then
        do a <- sdes_items_bytes items;
        do r <- sdes_chunks_bytes chunks';
        Ok (be32 ssrc ++ a ++ [0; 0] ++ r)
      else Crash
  end.

(* while len(payload) % 4: payload += b"\x00" *)
Definition pad4 (payload : bytes) : bytes := payload ++ zeros (Z.to_nat ((- len payload) mod 4)).

(* while pos < len(data) - 1: ...   returns (items, remaining bytes) *)
Fixpoint sdes_items_parse (fuel : nat) (rest : bytes) : result (list sdes_item * bytes) :=
  match fuel with
  | O => OutOfFuel
  | S f =>
      match rest with
      | t :: l :: rest' =>
          if len rest' <? l then ValueErr
          else
            let v := firstn (Z.to_nat l) rest' in
            let rest'' := skipn (Z.to_nat l) rest' in
            if t =? 0 then Ok ([], rest'')
            else do (items, r) <- sdes_items_parse f rest''; Ok ((t, v) :: items, r)
      | _ => Ok ([], rest)
      end
  end.

Fixpoint sdes_chunks_parse (count : nat) (rest : bytes) : result (list sdes_chunk) :=
  match count with
  | O => Ok []
  | S c =>
      if Nat.ltb (length rest) 4 then ValueErr
      else match u32 rest 0 with
           | None => Crash
           | Some ssrc =>
               do (items, r) <- sdes_items_parse (S (length rest)) (skipn 4 rest);
               do cs <- sdes_chunks_parse c r;
               Ok ((ssrc, items) :: cs)
           end
  end.

(* ---- __bytes__ of each class *)
Definition rtcp_bytes (p : rtcp) : result bytes :=
  match p with
  | Sr ssrc info reports =>
      if u32ok ssrc then
        do a <- sinfo_bytes info;
        do b <- rinfos_bytes reports;
        pack_rtcp_packet rtp_RTCP_SR (zlen reports) (be32 ssrc ++ a ++ b)
      else Crash
  | Rr ssrc reports =>
      if u32ok ssrc then
        do b <- rinfos_bytes reports;
        pack_rtcp_packet rtp_RTCP_RR (zlen reports) (be32 ssrc ++ b)
      else Crash
  | Sdes chunks =>
      do a <- sdes_chunks_bytes chunks;
      pack_rtcp_packet rtp_RTCP_SDES (zlen chunks) (pad4 a)
  | Bye sources =>
      do a <- be32s sources;
      pack_rtcp_packet rtp_RTCP_BYE (zlen sources) a
  | Rtpfb fmt ssrc media lost =>
      if u32ok ssrc && u32ok media then
        do a <- match lost with
                | [] => Ok []
                | pid :: rest => nack_pack (nack_entries pid 0 rest)
                end;
        pack_rtcp_packet rtp_RTCP_RTPFB fmt (be32 ssrc ++ be32 media ++ a)
      else Crash
  | Psfb fmt ssrc media fci =>
      if u32ok ssrc && u32ok media then
        pack_rtcp_packet rtp_RTCP_PSFB fmt (be32 ssrc ++ be32 media ++ fci)
      else Crash
  end.

(* bytes of a compound packet: b"".join(bytes(p) for p in packets) *)
Fixpoint rtcp_bytes_all (ps : list rtcp) : result bytes :=
  match ps with
  | [] => Ok []
  | p :: ps' => do a <- rtcp_bytes p; do b <- rtcp_bytes_all ps'; Ok (a ++ b)
  end.

(* ---- parse of each class: payload (padding removed) and the 5-bit count *)
Definition bye_parse (data : bytes) (count : Z) : result rtcp :=
  if len data <? count * 4 then ValueErr
  else match u32s data 0 (Z.to_nat count) with
       | Some l => Ok (Bye l)
       | None => Crash
       end.

Definition psfb_parse (data : bytes) (fmt : Z) : result rtcp :=
  if Nat.ltb (length data) 8 then ValueErr
  else match u32 data 0, u32 data 4 with
       | Some ssrc, Some media => Ok (Psfb fmt ssrc media (from data 8))
       | _, _ => Crash
       end.

Definition rr_parse (data : bytes) (count : Z) : result rtcp :=
  if negb (len data =? 4 + count * 24) then ValueErr
  else match u32 data 0 with
       | Some ssrc => do l <- rinfos_parse (Z.to_nat count) (skipn 4 data); Ok (Rr ssrc l)
       | None => Crash
       end.

Definition rtpfb_parse (data : bytes) (fmt : Z) : result rtcp :=
  if (Nat.ltb (length data) 8) || negb (len data mod 4 =? 0) then ValueErr
  else match u32 data 0, u32 data 4 with
       | Some ssrc, Some media => do l <- nack_parse (skipn 8 data); Ok (Rtpfb fmt ssrc media l)
       | _, _ => Crash
       end.

Definition sdes_parse (data : bytes) (count : Z) : result rtcp :=
  do cs <- sdes_chunks_parse (Z.to_nat count) data; Ok (Sdes cs).

Definition sr_parse (data : bytes) (count : Z) : result rtcp :=
  if negb (len data =? 24 + count * 24) then ValueErr
  else match u32 data 0 with
       | Some ssrc =>
           do info <- sinfo_parse (slice data 4 24);
           do l <- rinfos_parse (Z.to_nat count) (skipn 24 data);
           Ok (Sr ssrc info l)
       | None => Crash
       end.

(* dispatch on packet_type; unknown types are skipped (None) *)
Definition rtcp_parse_one (packet_type : Z) (payload : bytes) (count : Z) : result (option rtcp) :=
  if packet_type =? rtp_RTCP_BYE then do p <- bye_parse payload count; Ok (Some p)
  else if packet_type =? rtp_RTCP_SDES then do p <- sdes_parse payload count; Ok (Some p)
  else if packet_type =? rtp_RTCP_SR then do p <- sr_parse payload count; Ok (Some p)
  else if packet_type =? rtp_RTCP_RR then do p <- rr_parse payload count; Ok (Some p)
  else if packet_type =? rtp_RTCP_RTPFB then do p <- rtpfb_parse payload count; Ok (Some p)
  else if packet_type =? rtp_RTCP_PSFB then do p <- psfb_parse payload count; Ok (Some p)
  else Ok None.

(* if padding: payload[-1] must be 1..len(payload); payload = payload[0:-payload[-1]] *)
Definition strip_padding (padding : Z) (payload : bytes) : result bytes :=
  if padding =? 0 then Ok payload
  else match last_byte payload with
       | None => ValueErr
       | Some pl =>
           if (pl =? 0) || (len payload <? pl) then ValueErr
           else Ok (firstn (length payload - Z.to_nat pl) payload)
       end.

(* RtcpPacket.parse: while pos < len(data) *)
Fixpoint rtcp_parse_loop (fuel : nat) (rest : bytes) : result (list rtcp) :=
  match fuel with
  | O => OutOfFuel
  | S f =>
      match rest with
      | [] => Ok []
      | _ =>
          if Nat.ltb (length rest) 4 then ValueErr
          else match u8 rest 0, u8 rest 1, u16 rest 2 with
               | Some v_p_count, Some packet_type, Some length_ =>
                   let version := Z.shiftr v_p_count 6 in
                   let padding := Z.land (Z.shiftr v_p_count 5) 1 in
                   let count := Z.land v_p_count 31 in
                   if negb (version =? 2) then ValueErr
                   else
                     let body := skipn 4 rest in
                     let n := Z.to_nat (length_ * 4) in
                     if Nat.ltb (length body) n then ValueErr
                     else
                       do payload <- strip_padding padding (firstn n body);
                       do pkt <- rtcp_parse_one packet_type payload count;
                       do more <- rtcp_parse_loop f (skipn n body);
                       Ok (match pkt with Some p => p :: more | None => more end)
               | _, _, _ => Crash
               end
      end
  end.

Definition rtcp_parse (data : bytes) : result (list rtcp) :=
  rtcp_parse_loop (S (length data)) data.

(* ------------------------------------------------------------ s-expression glue *)
Definition rinfo_of_sx (x : sx) : rinfo :=
  mkRinfo (sx_z (sx_nth x 0)) (sx_z (sx_nth x 1)) (sx_z (sx_nth x 2)) (sx_z (sx_nth x 3))
          (sx_z (sx_nth x 4)) (sx_z (sx_nth x 5)) (sx_z (sx_nth x 6)).
Definition sx_of_rinfo (r : rinfo) : sx :=
  of_zs [ri_ssrc r; ri_fraction_lost r; ri_packets_lost r; ri_highest_sequence r; ri_jitter r;
         ri_lsr r; ri_dlsr r].
Definition sinfo_of_sx (x : sx) : sinfo :=
  mkSinfo (sx_z (sx_nth x 0)) (sx_z (sx_nth x 1)) (sx_z (sx_nth x 2)) (sx_z (sx_nth x 3)).
Definition sx_of_sinfo (s : sinfo) : sx := of_zs [si_ntp s; si_rtp s; si_packets s; si_octets s].

Definition item_of_sx (x : sx) : sdes_item := (sx_z (sx_nth x 0), sx_zs (sx_nth x 1)).
Definition chunk_of_sx (x : sx) : sdes_chunk := (sx_z (sx_nth x 0), map item_of_sx (sx_l (sx_nth x 1))).
Definition sx_of_item (i : sdes_item) : sx := L [A (fst i); of_zs (snd i)].
Definition sx_of_chunk (c : sdes_chunk) : sx := L [A (fst c); L (map sx_of_item (snd c))].

Definition rtcp_of_sx (x : sx) : rtcp :=
  let k := sx_z (sx_nth x 0) in
  if k =? 0 then Sr (sx_z (sx_nth x 1)) (sinfo_of_sx (sx_nth x 2)) (map rinfo_of_sx (sx_l (sx_nth x 3)))
  else if k =? 1 then Rr (sx_z (sx_nth x 1)) (map rinfo_of_sx (sx_l (sx_nth x 2)))
  else if k =? 2 then Sdes (map chunk_of_sx (sx_l (sx_nth x 1)))
  else if k =? 3 then Bye (sx_zs (sx_nth x 1))
  else if k =? 4 then Rtpfb (sx_z (sx_nth x 1)) (sx_z (sx_nth x 2)) (sx_z (sx_nth x 3)) (sx_zs (sx_nth x 4))
  else Psfb (sx_z (sx_nth x 1)) (sx_z (sx_nth x 2)) (sx_z (sx_nth x 3)) (sx_zs (sx_nth x 4)).

Definition sx_of_rtcp (p : rtcp) : sx :=
  match p with
  | Sr ssrc info reports => L [A 0; A ssrc; sx_of_sinfo info; L (map sx_of_rinfo reports)]
  | Rr ssrc reports => L [A 1; A ssrc; L (map sx_of_rinfo reports)]
  | Sdes chunks => L [A 2; L (map sx_of_chunk chunks)]
  | Bye sources => L [A 3; of_zs sources]
  | Rtpfb fmt ssrc media lost => L [A 4; A fmt; A ssrc; A media; of_zs lost]
  | Psfb fmt ssrc media fci => L [A 5; A fmt; A ssrc; A media; of_zs fci]
  end.

(* input (op args...):
     0 n            pack_packets_lost          -> bytes
     1 bytes        unpack_packets_lost        -> int
     2 bitrate (ssrc...)   pack_remb_fci       -> bytes
     3 bytes        unpack_remb_fci            -> (bitrate (ssrc...))
     4 (packet...)  b"".join(bytes(p))         -> bytes
     5 bytes        RtcpPacket.parse           -> (packet...)
     6 n            clamp_packets_lost         -> int
   output: (0 value) | (-1) | (-2) | (-3) *)
Definition main (x : sx) : sx :=
  let op := sx_z (sx_nth x 0) in
  if op =? 0 then sx_res of_zs (pack_packets_lost (sx_z (sx_nth x 1)))
  else if op =? 1 then sx_res A (unpack_packets_lost (sx_zs (sx_nth x 1)))
  else if op =? 2 then sx_res of_zs (pack_remb_fci (sx_z (sx_nth x 1)) (sx_zs (sx_nth x 2)))
  else if op =? 3 then sx_res (fun r => L [A (fst r); of_zs (snd r)]) (unpack_remb_fci (sx_zs (sx_nth x 1)))
  else if op =? 4 then sx_res of_zs (rtcp_bytes_all (map rtcp_of_sx (sx_l (sx_nth x 1))))
  else if op =? 5 then sx_res (fun l => L (map sx_of_rtcp l)) (rtcp_parse (sx_zs (sx_nth x 1)))
  else sx_res A (Ok (rtp_clamp_packets_lost (sx_z (sx_nth x 1)))).
