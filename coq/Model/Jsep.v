(* Model of the signalling (JSEP) state machine of aiortc.RTCPeerConnection
   (src/aiortc/rtcpeerconnection.py): createOffer 636-644, createAnswer 548-560,
   setLocalDescription (check state / implicit description / validate / update signaling state /
   replace description), setRemoteDescription (validate / set DTLS role / late closed check /
   update signaling state / replace description), close, __assertNotClosed 1109-1111, __localDescription /
   __remoteDescription 1216-1217 / 1233-1234, __setSignalingState 1266-1268,
   __validate_description 1347-1416.

   One peer connection = one `st`.  A description is what validation looks at:
   its type and, per media section, (kind, mid, ICE credentials present,
   DTLS parameters / role, rtcp-mux), plus an integer handle standing for the
   identity of the parsed SessionDescription object stored in a slot.

   Every literal list of states / types / roles / kinds and every state
   assignment comes from Gen/Jsep.v (regenerated from the Python ast on each
   run).  Hand-transcribed: the order of the statements, which slot is written,
   the `== "have-remote-offer"` test of the implicit setLocalDescription, the
   `description.type == "answer"` test of the slot replacement.

   No proofs here. *)
From Coq Require Import ZArith List Bool.
From AV Require Import Lib.Sx Gen.Jsep.
Import ListNotations.
Local Open Scope Z_scope.

(* ---- codes and decidable equality of the generated enumerations ----------- *)
Definition sig_code (s : sigstate) : Z :=
  match s with
  | Stable => 0 | HaveLocalOffer => 1 | HaveRemoteOffer => 2
  | HaveLocalPranswer => 3 | HaveRemotePranswer => 4 | Closed => 5
  end.
Definition dtype_code (t : dtype) : Z :=
  match t with TOffer => 0 | TPranswer => 1 | TAnswer => 2 | TRollback => 3 end.
Definition role_code (r : role) : Z :=
  match r with RAuto => 1 | RClient => 2 | RServer => 3 end.
Definition kind_code (k : kind) : Z :=
  match k with KAudio => 0 | KVideo => 1 | KApplication => 2 end.

Definition sig_eqb (a b : sigstate) : bool := Z.eqb (sig_code a) (sig_code b).
Definition dtype_eqb (a b : dtype) : bool := Z.eqb (dtype_code a) (dtype_code b).
Definition role_eqb (a b : role) : bool := Z.eqb (role_code a) (role_code b).
Definition kind_eqb (a b : kind) : bool := Z.eqb (kind_code a) (kind_code b).

(* Python `x in [..]` *)
Definition mem_sig (x : sigstate) (l : list sigstate) : bool := existsb (sig_eqb x) l.
Definition mem_dtype (x : dtype) (l : list dtype) : bool := existsb (dtype_eqb x) l.
Definition mem_role (x : role) (l : list role) : bool := existsb (role_eqb x) l.
Definition mem_kind (x : kind) (l : list kind) : bool := existsb (kind_eqb x) l.

(* ---- descriptions ----------------------------------------------------------- *)
Record media := mkMedia {
  m_kind : kind;
  m_mid : Z;                 (* a=mid, as an injective integer code *)
  m_ice : bool;              (* ice.usernameFragment and ice.password both truthy *)
  m_dtls : option role;      (* None: media.dtls is None (no a=setup) *)
  m_mux : bool               (* media.rtcp_mux *)
}.

Record desc := mkDesc {
  d_id : Z;                  (* identity of the parsed description object *)
  d_type : dtype;
  d_media : list media
}.

Definition retype (d : desc) (t : dtype) : desc := mkDesc (d_id d) t (d_media d).

Inductive outcome := Done | InvalidState | ValueErr | Crash.

Record st := mkSt {
  sig : sigstate;                 (* __signalingState *)
  is_closed : bool;               (* __isClosed is not None *)
  pend_local : option desc;       (* __pendingLocalDescription *)
  cur_local : option desc;        (* __currentLocalDescription *)
  pend_remote : option desc;      (* __pendingRemoteDescription *)
  cur_remote : option desc        (* __currentRemoteDescription *)
}.

Definition init : st := mkSt initial_state false None None None None.

(* `self.__pendingXDescription or self.__currentXDescription` (objects are truthy) *)
Definition local_description (s : st) : option desc :=
  match pend_local s with Some d => Some d | None => cur_local s end.
Definition remote_description (s : st) : option desc :=
  match pend_remote s with Some d => Some d | None => cur_remote s end.

(* ---- __validate_description -------------------------------------------------- *)
(* the `if is_local: if type == "offer" .. elif type == "answer" ..` dispatch;
   other types have no state check *)
Definition state_guard (is_local : bool) (t : dtype) : option (list sigstate) :=
  match is_local, t with
  | true, TOffer => Some validate_local_offer_states
  | true, TAnswer => Some validate_local_answer_states
  | false, TOffer => Some validate_remote_offer_states
  | false, TAnswer => Some validate_remote_answer_states
  | _, _ => None
  end.

(* body of `for media in description.media`, in source order *)
Definition check_media (t : dtype) (is_local : bool) (m : media) : outcome :=
  if negb (m_ice m) then ValueErr
  else
    let role_check :=
      if mem_dtype t validate_dtls_role_types then
        match m_dtls m with
        | None => if validate_role_check_handles_missing_dtls then ValueErr
                  else Crash                     (* None.role -> AttributeError *)
        | Some r => if negb (mem_role r validate_definite_roles) then ValueErr else Done
        end
      else Done in
    match role_check with
    | Done =>
        if validate_remote_requires_dtls && negb is_local
           && match m_dtls m with None => true | Some _ => false end
        then ValueErr
        else if mem_kind (m_kind m) validate_mux_kinds && negb (m_mux m) then ValueErr
        else Done
    | e => e
    end.

Fixpoint check_all (t : dtype) (is_local : bool) (ms : list media) : outcome :=
  match ms with
  | [] => Done
  | m :: ms' => match check_media t is_local m with
                | Done => check_all t is_local ms'
                | e => e
                end
  end.

(* [(media.kind, media.rtp.muxId) for media in ...] and list equality *)
Definition keys (d : desc) : list (kind * Z) := map (fun m => (m_kind m, m_mid m)) (d_media d).
Fixpoint keys_eqb (a b : list (kind * Z)) : bool :=
  match a, b with
  | [], [] => true
  | (k1, i1) :: a', (k2, i2) :: b' => kind_eqb k1 k2 && Z.eqb i1 i2 && keys_eqb a' b'
  | _, _ => false
  end.

Definition validate (s : st) (d : desc) (is_local : bool) : outcome :=
  if match state_guard is_local (d_type d) with
     | Some allowed => negb (mem_sig (sig s) allowed)
     | None => false
     end
  then InvalidState
  else
    match check_all (d_type d) is_local (d_media d) with
    | Done =>
        if mem_dtype (d_type d) validate_match_types then
          match (if is_local then remote_description s else local_description s) with
          | None => Crash                        (* None.media -> AttributeError *)
          | Some offer => if keys_eqb (keys d) (keys offer) then Done else ValueErr
          end
        else Done
    | e => e
    end.

(* ---- the API calls -------------------------------------------------------------- *)
(* createOffer: __assertNotClosed, then builds a description (not modelled) *)
Definition create_offer (s : st) : outcome :=
  if is_closed s then InvalidState else Done.

(* createAnswer: __assertNotClosed, state guard, then `self.__remoteDescription().media` *)
Definition create_answer (s : st) : outcome :=
  if is_closed s then InvalidState
  else if negb (mem_sig (sig s) create_answer_states) then InvalidState
  else match remote_description s with
       | None => Crash
       | Some _ => Done
       end.

(* `if type == "offer": set(..) elif type == "answer": set(..)`; the bool says whether
   __setSignalingState ran (it emits 'signalingstatechange' unconditionally) *)
Fixpoint state_update (tbl : list (dtype * sigstate)) (t : dtype) (cur : sigstate) : sigstate * bool :=
  match tbl with
  | [] => (cur, false)
  | (t', s') :: tbl' => if dtype_eqb t t' then (s', true) else state_update tbl' t cur
  end.

(* result of one call: new state, outcome class, 'signalingstatechange' emitted *)
Definition result := (st * (outcome * bool))%type.
Definition fail (s : st) (e : outcome) : result := (s, (e, false)).

(* setLocalDescription(sessionDescription).  `created` is what createOffer/createAnswer
   returns when the argument is None (an input: its content is decided by the negotiation
   code, which is not part of this model). *)
Definition set_local (s : st) (arg : option desc) (created : desc) : result :=
  if is_closed s then fail s InvalidState
  else
    let chosen : desc + outcome :=
      match arg with
      | Some d => inl d
      | None =>
          if sig_eqb (sig s) HaveRemoteOffer then
            match create_answer s with
            | Done => inl (retype created TAnswer)
            | e => inr e
            end
          else
            match create_offer s with
            | Done => inl (retype created TOffer)
            | e => inr e
            end
      end in
    match chosen with
    | inr e => fail s e
    | inl d =>
        match validate s d true with
        | Done =>
            let '(sg, ev) := state_update set_local_state_updates (d_type d) (sig s) in
            if dtype_eqb (d_type d) TAnswer
            then (mkSt sg (is_closed s) None (Some d) (pend_remote s) (cur_remote s), (Done, ev))
            else (mkSt sg (is_closed s) (Some d) (cur_local s) (pend_remote s) (cur_remote s), (Done, ev))
        | e => fail s e
        end
    end.

(* setRemoteDescription(sessionDescription): no __assertNotClosed on entry.  Between validation
   and the state update the modelled failures are `media.dtls.role` on a missing dtls (set DTLS
   role, inside the media loop) and the __assertNotClosed that follows the awaits ("the connection
   may have been closed while we were waiting"); the signalling state and the slots are written at
   the very end.  (setLocalDescription has the same late __assertNotClosed after gathering; with
   calls made one after the other it cannot fire there, because the call starts with the same test.) *)
Definition set_remote (s : st) (d : desc) : result :=
  match validate s d false with
  | Done =>
      if (dtype_eqb (d_type d) TOffer || dtype_eqb (d_type d) TAnswer)
         && existsb (fun m => match m_dtls m with None => true | Some _ => false end) (d_media d)
      then fail s Crash
      else if is_closed s then fail s InvalidState      (* __assertNotClosed after the awaits *)
      else
        let '(sg, ev) := state_update set_remote_state_updates (d_type d) (sig s) in
        if dtype_eqb (d_type d) TAnswer
        then (mkSt sg (is_closed s) (pend_local s) (cur_local s) None (Some d), (Done, ev))
        else (mkSt sg (is_closed s) (pend_local s) (cur_local s) (Some d) (cur_remote s), (Done, ev))
  | e => fail s e
  end.

(* close(): second call returns at once *)
Definition close (s : st) : result :=
  if is_closed s then (s, (Done, false))
  else (mkSt close_state true (pend_local s) (cur_local s) (pend_remote s) (cur_remote s), (Done, true)).

Inductive op :=
| CreateOffer
| CreateAnswer
| SetLocal (arg : option desc) (created : desc)
| SetRemote (d : desc)
| Close.

Definition step_full (s : st) (o : op) : result :=
  match o with
  | CreateOffer => fail s (create_offer s)
  | CreateAnswer => fail s (create_answer s)
  | SetLocal arg created => set_local s arg created
  | SetRemote d => set_remote s d
  | Close => close s
  end.

Definition step (s : st) (o : op) : st * outcome :=
  let '(s', (r, _)) := step_full s o in (s', r).

Fixpoint run (s : st) (ops : list op) : st * list outcome :=
  match ops with
  | [] => (s, [])
  | o :: ops' => let '(s1, r) := step s o in
                 let '(s2, rs) := run s1 ops' in (s2, r :: rs)
  end.

(* ---- s-expression glue -------------------------------------------------------------- *)
Definition kind_of_z (z : Z) : kind :=
  if Z.eqb z 0 then KAudio else if Z.eqb z 1 then KVideo else KApplication.
Definition dtype_of_z (z : Z) : dtype :=
  if Z.eqb z 0 then TOffer else if Z.eqb z 1 then TPranswer else if Z.eqb z 2 then TAnswer else TRollback.
Definition dtls_of_z (z : Z) : option role :=
  if Z.eqb z 0 then None else if Z.eqb z 1 then Some RAuto else if Z.eqb z 2 then Some RClient else Some RServer.

(* media: (kind mid ice dtls mux) ; desc: (id type (media ...)) *)
Definition media_of_sx (x : sx) : media :=
  mkMedia (kind_of_z (sx_z (sx_nth x 0))) (sx_z (sx_nth x 1)) (sx_b (sx_nth x 2))
          (dtls_of_z (sx_z (sx_nth x 3))) (sx_b (sx_nth x 4)).
Definition desc_of_sx (x : sx) : desc :=
  mkDesc (sx_z (sx_nth x 0)) (dtype_of_z (sx_z (sx_nth x 1))) (map media_of_sx (sx_l (sx_nth x 2))).

(* op: (peer code [desc]) ; code 0 createOffer, 1 createAnswer, 2 setLocal(desc),
   3 setLocal() with the created description, 4 setRemote(desc), 5 close *)
Definition op_of_sx (x : sx) : op :=
  let c := sx_z (sx_nth x 1) in
  if Z.eqb c 0 then CreateOffer
  else if Z.eqb c 1 then CreateAnswer
  else if Z.eqb c 2 then SetLocal (Some (desc_of_sx (sx_nth x 2))) (desc_of_sx (sx_nth x 2))
  else if Z.eqb c 3 then SetLocal None (desc_of_sx (sx_nth x 2))
  else if Z.eqb c 4 then SetRemote (desc_of_sx (sx_nth x 2))
  else Close.

Definition outcome_code (r : outcome) : Z :=
  match r with Done => 0 | InvalidState => 1 | ValueErr => ERR_VALUE | Crash => ERR_CRASH end.

Definition slot_sx (o : option desc) : sx := of_opt (fun d => A (d_id d)) o.
Definition vis_sx (o : option desc) : sx := of_opt (fun d => A (dtype_code (d_type d))) o.

(* observation after a call: outcome, event, signalingState, the four private slots
   (pending local, current local, pending remote, current remote), and the types of the
   public localDescription / remoteDescription *)
Definition obs_sx (s : st) (r : outcome) (ev : bool) : sx :=
  L [A (outcome_code r); of_b ev; A (sig_code (sig s));
     slot_sx (pend_local s); slot_sx (cur_local s); slot_sx (pend_remote s); slot_sx (cur_remote s);
     vis_sx (local_description s); vis_sx (remote_description s)].

(* a pair of independent peer connections; every op names its peer *)
Fixpoint run_pair (s0 s1 : st) (xs : list sx) : list sx :=
  match xs with
  | [] => []
  | x :: xs' =>
      let o := op_of_sx x in
      if Z.eqb (sx_z (sx_nth x 0)) 0
      then let '(s0', (r, ev)) := step_full s0 o in obs_sx s0' r ev :: run_pair s0' s1 xs'
      else let '(s1', (r, ev)) := step_full s1 o in obs_sx s1' r ev :: run_pair s0 s1' xs'
  end.

Definition main (x : sx) : sx := L (run_pair init init (sx_l x)).
