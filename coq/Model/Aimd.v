(* Model of aiortc.rate.AimdRateControl (rate.py 35-182, repaired tree): the
   integer skeleton of update / _clamp_bitrate / _additive_rate_increase /
   _multiplicative_rate_increase / _near_max_rate_increase.

   Floating point is NOT modelled.  The float-rounded quantities are inputs of
   every update call (record `fl`), recorded from the implementation run:
     f_c15   = int(1.5 * estimated_throughput)            (_clamp_bitrate)
     f_d85   = round(0.85 * estimated_throughput)         (DECREASE branch)
     f_mi    = value of _multiplicative_rate_increase()   (pow, float product)
     f_ai    = value of _additive_rate_increase()         (float quotient)
     f_clear = the test `estimated_throughput_kbps >= avg_max + 3 sigma` fired
               (avg_max_bitrate_kbps / var_max_bitrate_kbps floats only steer
               this flag, i.e. whether near_max is reset)
   The theorems quantify over all of them (within the ranges stated in
   Proof/AimdP.v).  What can raise in the integer skeleton is explicit:
   `now_ms - last_ms` with last_ms None (TypeError) and the two divisions of
   _near_max_rate_increase (ZeroDivisionError).  No proofs here. *)
From Coq Require Import ZArith List Bool.
From AV Require Import Lib.Sx Model.RateCounter.
Import ListNotations.
Local Open Scope Z_scope.

Inductive usage := Normal | Underusing | Overusing.          (* BandwidthUsage *)
Inductive rcstate := Hold | Increase | Decrease.             (* RateControlState *)

Definition is_normal (u : usage) : bool := match u with Normal => true | _ => false end.
Definition is_under (u : usage) : bool := match u with Underusing => true | _ => false end.
Definition is_over (u : usage) : bool := match u with Overusing => true | _ => false end.
Definition is_hold (s : rcstate) : bool := match s with Hold => true | _ => false end.

Record aimd := mkAimd {
  cb : Z;                         (* current_bitrate *)
  cb_init : bool;                 (* current_bitrate_initialized *)
  first_time : option Z;          (* first_estimated_throughput_time *)
  last_change : option Z;         (* last_change_ms *)
  near_max : bool;
  latest : Z;                     (* latest_estimated_throughput *)
  rtt : Z;
  st : rcstate
}.

Definition aimd_init : aimd := mkAimd 30000000 false None None false 30000000 200 Hold.

Record fl := mkFl { f_c15 : Z; f_d85 : Z; f_mi : Z; f_ai : Z; f_clear : bool }.

Definition ceil_div (a b : Z) : Z := - ((- a) / b).

(* _near_max_rate_increase, the part that can raise:
     bits_per_frame = current_bitrate / 30
     packets_per_frame = max(1, ceil(bits_per_frame / 9600))      <- repaired line
     avg_packet_size_bits = bits_per_frame / packets_per_frame    <- ZeroDivisionError
     ... / response_time                                          <- ZeroDivisionError *)
Definition packets_per_frame (current_bitrate : Z) : Z :=
  Z.max 1 (ceil_div current_bitrate 288000).

Definition near_max_rate_increase_raises (s : aimd) : bool :=
  (packets_per_frame (cb s) =? 0) || (rtt s + 100 =? 0).

(* _clamp_bitrate + the two last lines of update *)
Definition finish (s : aimd) (new_bitrate : Z) (f : fl) : result (aimd * option Z) :=
  let max_bitrate := Z.max (f_c15 f + 10000) (cb s) in
  let r := Z.min new_bitrate max_bitrate in
  Ok (mkAimd r (cb_init s) (first_time s) (last_change s) (near_max s) (latest s) (rtt s) (st s), Some r).

(* update(), block 1: initialisation from the first throughput measured more
   than 3 s after the first one *)
Definition init_step (s : aimd) (et : option Z) (now : Z) : aimd :=
  if negb (cb_init s) then
    match et with
    | Some e =>
        match first_time s with
        | None => mkAimd (cb s) (cb_init s) (Some now) (last_change s) (near_max s) (latest s) (rtt s) (st s)
        | Some ft =>
            if 3000 <? now - ft
            then mkAimd e true (first_time s) (last_change s) (near_max s) (latest s) (rtt s) (st s)
            else s
        end
    | None => s
    end
  else s.

(* block "update state" *)
Definition state_step (s1 : aimd) (u : usage) (now : Z) : aimd :=
  if is_normal u && is_hold (st s1)
  then mkAimd (cb s1) (cb_init s1) (first_time s1) (Some now) (near_max s1) (latest s1) (rtt s1) Increase
  else if is_over u
  then mkAimd (cb s1) (cb_init s1) (first_time s1) (last_change s1) (near_max s1) (latest s1) (rtt s1) Decrease
  else if is_under u
  then mkAimd (cb s1) (cb_init s1) (first_time s1) (last_change s1) (near_max s1) (latest s1) (rtt s1) Hold
  else s1.

(* block "helper variables": latest_estimated_throughput *)
Definition helper_step (s2 : aimd) (et : option Z) : aimd :=
  match et with
  | Some e => mkAimd (cb s2) (cb_init s2) (first_time s2) (last_change s2) (near_max s2) e (rtt s2) (st s2)
  | None => s2
  end.

(* block "update bitrate" and the clamp; new_bitrate starts as current_bitrate *)
Definition bitrate_step (s3 : aimd) (now : Z) (f : fl) : result (aimd * option Z) :=
  let new_bitrate := cb s3 in
  match st s3 with
  | Increase =>
      let nm := near_max s3 && negb (f_clear f) in
      if nm then
        match last_change s3 with
        | None => Crash                                      (* now_ms - None: TypeError *)
        | Some _ =>
            if near_max_rate_increase_raises s3 then Crash   (* ZeroDivisionError *)
            else finish (mkAimd (cb s3) (cb_init s3) (first_time s3) (Some now) nm (latest s3) (rtt s3) (st s3))
                        (new_bitrate + f_ai f) f
        end
      else finish (mkAimd (cb s3) (cb_init s3) (first_time s3) (Some now) nm (latest s3) (rtt s3) (st s3))
                  (new_bitrate + f_mi f) f
  | Decrease =>
      finish (mkAimd (cb s3) (cb_init s3) (first_time s3) (Some now) true (latest s3) (rtt s3) Hold)
             (f_d85 f) f
  | Hold => finish s3 new_bitrate f
  end.

Definition update (s : aimd) (u : usage) (et : option Z) (now : Z) (f : fl) : result (aimd * option Z) :=
  let s1 := init_step s et now in
  (* wait for initialisation or overuse *)
  if negb (cb_init s1) && negb (is_over u) then Ok (s1, None)
  else bitrate_step (helper_step (state_step s1 u now) et) now f.

(* the throughput the float inputs refer to: estimated_throughput after the
   "helper variables" block *)
Definition throughput_of (s : aimd) (et : option Z) : Z :=
  match et with Some e => e | None => latest s end.

(* ---- histories -------------------------------------------------------------- *)
Record call := mkCall { c_usage : usage; c_et : option Z; c_now : Z; c_fl : fl }.

Fixpoint run (s : aimd) (cs : list call) : aimd * list (option Z) * Z :=
  match cs with
  | [] => (s, [], 0)
  | c :: cs' =>
      match update s (c_usage c) (c_et c) (c_now c) (c_fl c) with
      | Ok (s1, x) => let '(s2, xs, e) := run s1 cs' in (s2, x :: xs, e)
      | ValueErr => (s, [], ERR_VALUE)
      | Crash => (s, [], ERR_CRASH)
      | OutOfFuel => (s, [], ERR_FUEL)
      end
  end.

(* ---- s-expression glue ------------------------------------------------------ *)
Definition usage_of_z (z : Z) : usage :=
  if Z.eqb z 0 then Normal else if Z.eqb z 1 then Underusing else Overusing.
Definition z_of_state (s : rcstate) : Z :=
  match s with Hold => 0 | Increase => 1 | Decrease => 2 end.

(* (c15 d85 mi ai clear) *)
Definition fl_of_sx (x : sx) : fl :=
  mkFl (sx_z (sx_nth x 0)) (sx_z (sx_nth x 1)) (sx_z (sx_nth x 2)) (sx_z (sx_nth x 3)) (sx_b (sx_nth x 4)).

(* (usage et now fl) *)
Definition call_of_sx (x : sx) : call :=
  mkCall (usage_of_z (sx_z (sx_nth x 0))) (sx_opt sx_z (sx_nth x 1)) (sx_z (sx_nth x 2)) (fl_of_sx (sx_nth x 3)).

Definition aimd_sx (s : aimd) : sx :=
  L [A (cb s); of_b (cb_init s); of_opt A (first_time s); of_opt A (last_change s); of_b (near_max s);
     A (latest s); A (rtt s); A (z_of_state (st s))].

(* input: list of calls; output: (status outs state) *)
Definition main (x : sx) : sx :=
  let '(s, outs, e) := run aimd_init (map call_of_sx (sx_l x)) in
  L [A e; L (map (of_opt A) outs); aimd_sx s].
