(* Model of the VP8 RTP payload format code in aiortc/codecs/vpx.py:
     VpxPayloadDescriptor.__bytes__   (57-89)
     VpxPayloadDescriptor.parse       (97-166)
     Vp8Encoder._packetize            (267-281)
     vp8_depayload                    (284-286)
   Executable definitions only, no proofs.  Exceptions are values
   (Lib/CodecX.result): ValueErr = ValueError, Crash = any other exception
   (struct.error, IndexError), OutOfFuel = the loop would not terminate. *)
From Coq Require Import ZArith List Bool.
From AV Require Import Lib.Sx Lib.Bytes Lib.CodecX Gen.VpxConst.
Import ListNotations.
Local Open Scope Z_scope.

Record descr := mkDescr {
  partition_start : Z;
  partition_id : Z;
  picture_id : option Z;
  tl0picidx : option Z;
  tid : option (Z * Z);
  keyidx : option Z
}.

(* struct.pack("!B", n) / pack("!H", n): struct.error outside the range *)
Definition pack_B (n : Z) : result bytes :=
  if (0 <=? n) && (n <? 256) then Ok [n] else Crash.
Definition pack_H (n : Z) : result bytes :=
  if (0 <=? n) && (n <? 65536) then Ok (be16 n) else Crash.

Definition is_some {T : Type} (o : option T) : bool :=
  match o with Some _ => true | None => false end.

(* VpxPayloadDescriptor.__bytes__ *)
Definition descr_bytes (d : descr) : result bytes :=
  let octet := Z.lor (Z.shiftl (partition_start d) 4) (partition_id d) in
  let ext_octet := 0 in
  let ext_octet := if is_some (picture_id d) then Z.lor ext_octet (Z.shiftl 1 7) else ext_octet in
  let ext_octet := if is_some (tl0picidx d) then Z.lor ext_octet (Z.shiftl 1 6) else ext_octet in
  let ext_octet := if is_some (tid d) then Z.lor ext_octet (Z.shiftl 1 5) else ext_octet in
  let ext_octet := if is_some (keyidx d) then Z.lor ext_octet (Z.shiftl 1 4) else ext_octet in
  if negb (ext_octet =? 0) then
    b0 <- pack_B (Z.lor (Z.shiftl 1 7) octet) ;;
    b1 <- pack_B ext_octet ;;
    bI <- match picture_id d with
          | None => Ok []
          | Some p => if p <? 128 then pack_B p else pack_H (Z.lor (Z.shiftl 1 15) p)
          end ;;
    bL <- match tl0picidx d with
          | None => Ok []
          | Some t => pack_B t
          end ;;
    bTK <- (if is_some (tid d) || is_some (keyidx d) then
              let t_k := 0 in
              let t_k := match tid d with
                         | Some (t0, t1) => Z.lor t_k (Z.lor (Z.shiftl t0 6) (Z.shiftl t1 5))
                         | None => t_k
                         end in
              let t_k := match keyidx d with
                         | Some k => Z.lor t_k k
                         | None => t_k
                         end in
              pack_B t_k
            else Ok []) ;;
    Ok (b0 ++ b1 ++ bI ++ bL ++ bTK)
  else pack_B octet.

(* VpxPayloadDescriptor.parse; pos is a small non-negative offset *)
Definition parse (data : bytes) : result (descr * bytes) :=
  if len data <? 1 then ValueErr
  else match u8 data 0 with
  | None => Crash
  | Some octet =>
    let extended := Z.shiftr octet 7 in
    let partition_start := Z.land (Z.shiftr octet 4) 1 in
    let partition_id := Z.land octet 15 in
    let pos := 1%nat in
    if negb (extended =? 0) then
      if len data <? Z.of_nat pos + 1 then ValueErr
      else match u8 data pos with
      | None => Crash
      | Some octet =>
        let ext_I := Z.land (Z.shiftr octet 7) 1 in
        let ext_L := Z.land (Z.shiftr octet 6) 1 in
        let ext_T := Z.land (Z.shiftr octet 5) 1 in
        let ext_K := Z.land (Z.shiftr octet 4) 1 in
        let pos := (pos + 1)%nat in
        (* picture id *)
        '(picture_id, pos) <-
           (if negb (ext_I =? 0) then
              if len data <? Z.of_nat pos + 1 then ValueErr
              else match u8 data pos with
                   | None => Crash
                   | Some b =>
                       if negb (Z.land b 128 =? 0) then
                         if len data <? Z.of_nat pos + 2 then ValueErr
                         else match u16 data pos with
                              | None => Crash
                              | Some v => Ok (Some (Z.land v 32767), (pos + 2)%nat)
                              end
                       else Ok (Some b, (pos + 1)%nat)
                   end
            else Ok (None, pos)) ;;
        '(tl0picidx, pos) <-
           (if negb (ext_L =? 0) then
              if len data <? Z.of_nat pos + 1 then ValueErr
              else match u8 data pos with
                   | None => Crash
                   | Some b => Ok (Some b, (pos + 1)%nat)
                   end
            else Ok (None, pos)) ;;
        '(tid, keyidx, pos) <-
           (if negb (ext_T =? 0) || negb (ext_K =? 0) then
              if len data <? Z.of_nat pos + 1 then ValueErr
              else match u8 data pos with
                   | None => Crash
                   | Some t_k =>
                       let tid := if negb (ext_T =? 0)
                                  then Some (Z.land (Z.shiftr t_k 6) 3, Z.land (Z.shiftr t_k 5) 1)
                                  else None in
                       let keyidx := if negb (ext_K =? 0) then Some (Z.land t_k 31) else None in
                       Ok (tid, keyidx, (pos + 1)%nat)
                   end
            else Ok (None, None, pos)) ;;
        Ok (mkDescr partition_start partition_id picture_id tl0picidx tid keyidx, skipn pos data)
      end
    else Ok (mkDescr partition_start partition_id None None None None, skipn pos data)
  end.

Definition depayload (payload : bytes) : result bytes :=
  '(_, data) <- parse payload ;; Ok data.

Definition set_partition_start (d : descr) (v : Z) : descr :=
  mkDescr v (partition_id d) (picture_id d) (tl0picidx d) (tid d) (keyidx d).

(* the `while pos < length` loop of Vp8Encoder._packetize *)
Fixpoint packetize_loop (fuel : nat) (buffer : bytes) (d : descr) (length pos : Z)
  : result (list bytes) :=
  if pos <? length then
    match fuel with
    | O => OutOfFuel
    | S f =>
        descr_bytes_ <- descr_bytes d ;;
        let size := Z.min (length - pos) (vpx_PACKET_MAX - len descr_bytes_) in
        let payload := descr_bytes_ ++ pyslice buffer pos (pos + size) in
        rest <- packetize_loop f buffer (set_partition_start d 0) length (pos + size) ;;
        Ok (payload :: rest)
    end
  else Ok [].

Definition packetize (buffer : bytes) (picture_id : Z) : result (list bytes) :=
  packetize_loop (length buffer) buffer (mkDescr 1 0 (Some picture_id) None None None) (len buffer) 0.

(* ---- s-expression glue -------------------------------------------------- *)
Definition sx_descr (d : descr) : sx :=
  L [A (partition_start d); A (partition_id d); of_opt A (picture_id d); of_opt A (tl0picidx d);
     of_opt (fun t => L [A (fst t); A (snd t)]) (tid d); of_opt A (keyidx d)].

Definition descr_of_sx (x : sx) : descr :=
  mkDescr (sx_z (sx_nth x 0)) (sx_z (sx_nth x 1)) (sx_opt sx_z (sx_nth x 2)) (sx_opt sx_z (sx_nth x 3))
          (sx_opt (fun t => (sx_z (sx_nth t 0), sx_z (sx_nth t 1))) (sx_nth x 4))
          (sx_opt sx_z (sx_nth x 5)).

Definition sx_parse (r : result (descr * bytes)) : sx :=
  sx_of_result (fun p => L [sx_descr (fst p); of_zs (snd p)]) r.

(* input (op args...):
   0 data            -> parse
   1 descr           -> bytes(descr), then parse of the result
   2 buffer pid      -> _packetize, then parse of every payload
   3 data            -> parse of every prefix data[:k], k = 0..len(data) *)
Definition main (x : sx) : sx :=
  let op := sx_z (sx_nth x 0) in
  if op =? 0 then sx_parse (parse (sx_zs (sx_nth x 1)))
  else if op =? 1 then
    sx_of_result (fun b => L [of_zs b; sx_parse (parse b)]) (descr_bytes (descr_of_sx (sx_nth x 1)))
  else if op =? 3 then
    let data := sx_zs (sx_nth x 1) in
    L (map (fun k => sx_parse (parse (firstn k data))) (seq 0 (S (length data))))
  else
    sx_of_result (fun pk => L [L (map of_zs pk); L (map (fun p => sx_parse (parse p)) pk)])
                 (packetize (sx_zs (sx_nth x 1)) (sx_z (sx_nth x 2))).
