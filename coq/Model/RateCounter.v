(* Model of aiortc.rate.RateCounter / RateBucket (rate.py 449-506), exact integers.
   A bucket is the pair (count, value).  Python's `round(scale * value / window)`
   (true division of ints, correctly rounded, then round-half-even) is the exact
   rational round-half-even `round_div` (identical for |scale * value| < 2^52,
   which the correspondence run checks by comparing every rate).  No proofs here. *)
From Coq Require Import ZArith List Bool.
From AV Require Import Lib.Sx.
Import ListNotations.
Local Open Scope Z_scope.

Inductive result (A : Type) : Type :=
| Ok (a : A)
| ValueErr
| Crash
| OutOfFuel.
Arguments Ok {A} a.
Arguments ValueErr {A}.
Arguments Crash {A}.
Arguments OutOfFuel {A}.

Definition bucket := (Z * Z)%type.          (* (count, value) *)

Record rc := mkRc {
  buckets : list bucket;                    (* _buckets *)
  origin_index : Z;                         (* _origin_index *)
  origin_ms : option Z;                     (* _origin_ms *)
  total : bucket;                           (* _total *)
  window_size : Z;                          (* _window_size *)
  scale : Z                                 (* _scale *)
}.

(* l[n] = f(l[n]); None = IndexError *)
Fixpoint upd {A} (l : list A) (n : nat) (f : A -> A) : option (list A) :=
  match l, n with
  | [], _ => None
  | x :: l', O => Some (f x :: l')
  | x :: l', S n' => match upd l' n' f with Some r => Some (x :: r) | None => None end
  end.

(* round(a / b) for ints a, b with b > 0: round half to even *)
Definition round_div (a b : Z) : Z :=
  let q := a / b in
  let r := a mod b in
  if r * 2 <? b then q
  else if b <? r * 2 then q + 1
  else if Z.even q then q else q + 1.

(* reset(): [RateBucket() for i in range(window_size)] *)
Definition reset (s : rc) : rc :=
  mkRc (repeat (0, 0) (Z.to_nat (window_size s))) 0 None (0, 0) (window_size s) (scale s).

(* __init__ *)
Definition init (w sc : Z) : rc := reset (mkRc [] 0 None (0, 0) w sc).

(* body of the while loop of _erase_old *)
Definition erase_step (s : rc) (om : Z) : result rc :=
  if origin_index s <? 0 then Crash else
  match nth_error (buckets s) (Z.to_nat (origin_index s)) with
  | None => Crash                                            (* IndexError *)
  | Some b =>
      match upd (buckets s) (Z.to_nat (origin_index s)) (fun _ => (0, 0)) with
      | None => Crash
      | Some bs =>
          if window_size s =? 0 then Crash                   (* ZeroDivisionError *)
          else Ok (mkRc bs ((origin_index s + 1) mod window_size s) (Some (om + 1))
                        (fst (total s) - fst b, snd (total s) - snd b)
                        (window_size s) (scale s))
      end
  end.

Fixpoint erase_loop (fuel : nat) (s : rc) (new_origin : Z) : result rc :=
  match origin_ms s with
  | None => Crash                                            (* None < int: TypeError *)
  | Some om =>
      if om <? new_origin then
        match fuel with
        | O => OutOfFuel
        | S f => match erase_step s om with
                 | Ok s' => erase_loop f s' new_origin
                 | e => e
                 end
        end
      else Ok s
  end.

(* the loop runs new_origin - origin_ms times *)
Definition erase_fuel (s : rc) (now : Z) : nat :=
  match origin_ms s with
  | Some om => Z.to_nat (now - window_size s + 1 - om)
  | None => O
  end.

Definition erase_old (s : rc) (now : Z) : result rc :=
  erase_loop (erase_fuel s now) s (now - window_size s + 1).

(* add(), after the origin is settled: the four lines that bump bucket and total *)
Definition add_tail (s1 : rc) (value now : Z) : result rc :=
  match origin_ms s1 with
  | None => Crash
  | Some om =>
      if window_size s1 =? 0 then Crash                  (* ZeroDivisionError *)
      else
        let index := (origin_index s1 + now - om) mod window_size s1 in
        if index <? 0 then Crash                         (* only for window_size < 0: empty list *)
        else match upd (buckets s1) (Z.to_nat index) (fun b => (fst b + 1, snd b + value)) with
             | None => Crash                             (* IndexError *)
             | Some bs => Ok (mkRc bs (origin_index s1) (Some om)
                                   (fst (total s1) + 1, snd (total s1) + value)
                                   (window_size s1) (scale s1))
             end
  end.

Definition add (s : rc) (value now : Z) : result rc :=
  match origin_ms s with
  | None => add_tail (mkRc (buckets s) (origin_index s) (Some now) (total s) (window_size s) (scale s)) value now
  | Some _ =>
      match erase_old s now with
      | Ok s1 => add_tail s1 value now
      | e => e
      end
  end.

Definition rate (s : rc) (now : Z) : result (rc * option Z) :=
  match origin_ms s with
  | None => Ok (s, None)
  | Some _ =>
      match erase_old s now with
      | Ok s1 =>
          match origin_ms s1 with
          | None => Crash
          | Some om =>
              let active_window_size := now - om + 1 in
              if (0 <? fst (total s1)) && (1 <? active_window_size)
              then Ok (s1, Some (round_div (scale s1 * snd (total s1)) active_window_size))
              else Ok (s1, None)
          end
      | ValueErr => ValueErr
      | Crash => Crash
      | OutOfFuel => OutOfFuel
      end
  end.

(* ---- operation histories ---------------------------------------------------- *)
Inductive op :=
| Add (value now : Z)
| Rate (now : Z)
| Reset.

Inductive out :=
| ONone
| ORate (r : option Z).

Definition step (s : rc) (o : op) : result (rc * out) :=
  match o with
  | Add v now => match add s v now with
                 | Ok s' => Ok (s', ONone)
                 | ValueErr => ValueErr | Crash => Crash | OutOfFuel => OutOfFuel
                 end
  | Rate now => match rate s now with
                | Ok (s', r) => Ok (s', ORate r)
                | ValueErr => ValueErr | Crash => Crash | OutOfFuel => OutOfFuel
                end
  | Reset => Ok (reset s, ONone)
  end.

(* run until the first exception: (state, outputs so far, status) *)
Fixpoint run (s : rc) (ops : list op) : rc * list out * Z :=
  match ops with
  | [] => (s, [], 0)
  | o :: ops' =>
      match step s o with
      | Ok (s1, x) => let '(s2, xs, e) := run s1 ops' in (s2, x :: xs, e)
      | ValueErr => (s, [], ERR_VALUE)
      | Crash => (s, [], ERR_CRASH)
      | OutOfFuel => (s, [], ERR_FUEL)
      end
  end.

(* ---- s-expression glue ------------------------------------------------------ *)
Definition op_of_sx (x : sx) : op :=
  let t := sx_z (sx_nth x 0) in
  if Z.eqb t 0 then Add (sx_z (sx_nth x 1)) (sx_z (sx_nth x 2))
  else if Z.eqb t 1 then Rate (sx_z (sx_nth x 1))
  else Reset.

Definition sx_of_out (o : out) : sx :=
  match o with
  | ONone => L []
  | ORate r => L [A 1; of_opt A r]
  end.

(* non-empty buckets as (index, count, value) *)
Fixpoint buckets_sx (l : list bucket) (i : Z) : list sx :=
  match l with
  | [] => []
  | (c, v) :: l' =>
      if Z.eqb c 0 && Z.eqb v 0 then buckets_sx l' (i + 1)
      else L [A i; A c; A v] :: buckets_sx l' (i + 1)
  end.

Definition state_sx (s : rc) : sx :=
  L [A (Z.of_nat (length (buckets s))); L (buckets_sx (buckets s) 0); A (origin_index s);
     of_opt A (origin_ms s); A (fst (total s)); A (snd (total s))].

(* input: (window_size scale ops); output: (status outs state) *)
Definition main (x : sx) : sx :=
  let '(s, outs, e) := run (init (sx_z (sx_nth x 0)) (sx_z (sx_nth x 1))) (map op_of_sx (sx_l (sx_nth x 2))) in
  L [A e; L (map sx_of_out outs); state_sx s].
