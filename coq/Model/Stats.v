(* Model of the RTCP receiver statistics of aiortc (REPAIRED code, see the two
   `fix:` commits of property C18):
     - StreamStatistics            rtcrtpreceiver.py 123-194  (add, fraction_lost,
                                   jitter, packets_expected, packets_lost)
     - the LSR bookkeeping of      RTCRtpReceiver._handle_rtcp_packet (SR branch)
     - the report assembly of      RTCRtpReceiver._run_rtcp (one loop iteration)
     - RtcpReceiverInfo.__bytes__, pack_packets_lost, RtcpRrPacket.__bytes__,
       pack_rtcp_packet            rtp.py
   One remote SSRC (one StreamStatistics object) per receiver is modelled.
   `int(time.time() * clockrate)` is the integer input `arrival` of every RTP
   event.  The wall clock of the SR / report events is an integer in units of
   2^-20 s (the harness only uses such instants, which are exact as floats), so
   `int(delay * 65536)` is `delay / 16`.
   struct.pack raising on an out-of-range value, and arithmetic on `None`, are
   explicit Crash results.  No proofs here. *)
From Coq Require Import ZArith List Bool.
From AV Require Import Lib.Sx Lib.Bytes Gen.Utils Gen.RtpConst.
Import ListNotations.
Local Open Scope Z_scope.

Inductive result (A : Type) : Type :=
| Ok (a : A)
| ValueErr
| Crash
| OutOfFuel.
Arguments Ok {A} a.
Arguments ValueErr {A}.
Arguments Crash {A}.
Arguments OutOfFuel {A}.

(* ---- StreamStatistics ------------------------------------------------------ *)
Record stats := mkStats {
  base_seq : option Z;
  max_seq : option Z;
  cycles : Z;
  packets_received : Z;
  jitter_q4 : Z;
  last_arrival : option Z;
  last_timestamp : option Z;
  expected_prior : Z;
  received_prior : Z
}.

(* StreamStatistics.__init__ *)
Definition init : stats := mkStats None None 0 0 0 None None 0 0.

(* `packet.timestamp != self._last_timestamp` (an int never equals None) *)
Definition neq_opt (a : Z) (o : option Z) : bool :=
  match o with None => true | Some b => negb (Z.eqb a b) end.

(* the repaired transit difference: `x & 0xFFFFFFFF`, folded at 2^31 *)
Definition transit_diff (x : Z) : Z :=
  let diff := Z.land x 4294967295 in
  if Z.ltb 2147483648 diff then 4294967296 - diff else diff.

(* StreamStatistics.add(packet) with arrival = int(time.time() * clockrate) *)
Definition add (s : stats) (seq ts arrival : Z) : result stats :=
  let in_order := match max_seq s with None => true | Some m => uint16_gt seq m end in
  let received := packets_received s + 1 in
  let base := match base_seq s with None => Some seq | Some b => Some b end in
  if in_order then
    let cyc := match max_seq s with
               | Some m => if Z.ltb seq m then cycles s + Z.shiftl 1 16 else cycles s
               | None => cycles s
               end in
    if neq_opt ts (last_timestamp s) && Z.ltb 1 received then
      match last_arrival s, last_timestamp s with
      | Some la, Some lt =>
          let diff := transit_diff ((arrival - la) - (ts - lt)) in
          Ok (mkStats base (Some seq) cyc received
                      (jitter_q4 s + (diff - Z.shiftr (jitter_q4 s + 8) 4))
                      (Some arrival) (Some ts) (expected_prior s) (received_prior s))
      | _, _ => Crash                      (* int - None: TypeError *)
      end
    else
      Ok (mkStats base (Some seq) cyc received (jitter_q4 s)
                  (Some arrival) (Some ts) (expected_prior s) (received_prior s))
  else
    Ok (mkStats base (max_seq s) (cycles s) received (jitter_q4 s)
                (last_arrival s) (last_timestamp s) (expected_prior s) (received_prior s)).

(* property packets_expected: cycles + max_seq - base_seq + 1 (None: TypeError) *)
Definition packets_expected (s : stats) : result Z :=
  match max_seq s, base_seq s with
  | Some m, Some b => Ok (cycles s + m - b + 1)
  | _, _ => Crash
  end.

(* property packets_lost *)
Definition packets_lost (s : stats) : result Z :=
  match packets_expected s with
  | Ok e => Ok (rtp_clamp_packets_lost (e - packets_received s))
  | _ => Crash
  end.

(* property jitter *)
Definition jitter (s : stats) : Z := Z.shiftr (jitter_q4 s) 4.

(* property fraction_lost: returns the value and the object with updated priors *)
Definition fraction_lost (s : stats) : result (Z * stats) :=
  match packets_expected s with
  | Ok e =>
      let expected_interval := e - expected_prior s in
      let received_interval := packets_received s - received_prior s in
      let s' := mkStats (base_seq s) (max_seq s) (cycles s) (packets_received s) (jitter_q4 s)
                        (last_arrival s) (last_timestamp s) e (packets_received s) in
      let lost_interval := expected_interval - received_interval in
      if Z.eqb expected_interval 0 || Z.leb lost_interval 0 then Ok (0, s')
      else Ok (Z.shiftl lost_interval 8 / expected_interval, s')
  | _ => Crash
  end.

(* ---- packing (rtp.py) -------------------------------------------------------- *)
Definition in_u8 (n : Z) : bool := Z.leb 0 n && Z.ltb n 256.
Definition in_u16 (n : Z) : bool := Z.leb 0 n && Z.ltb n 65536.
Definition in_u32 (n : Z) : bool := Z.leb 0 n && Z.ltb n 4294967296.
Definition in_i32 (n : Z) : bool := Z.leb (-2147483648) n && Z.ltb n 2147483648.

Record rinfo := mkInfo {
  ri_ssrc : Z;
  ri_fraction : Z;
  ri_lost : Z;
  ri_highest : Z;
  ri_jitter : Z;
  ri_lsr : Z;
  ri_dlsr : Z
}.

(* pack("!l", count)[1:] *)
Definition pack_packets_lost (count : Z) : result bytes :=
  if in_i32 count then Ok (from (be32 count) 1) else Crash.

(* RtcpReceiverInfo.__bytes__ *)
Definition rinfo_bytes (i : rinfo) : result bytes :=
  if in_u32 (ri_ssrc i) && in_u8 (ri_fraction i) then
    match pack_packets_lost (ri_lost i) with
    | Ok pl =>
        if in_u32 (ri_highest i) && in_u32 (ri_jitter i) && in_u32 (ri_lsr i) && in_u32 (ri_dlsr i)
        then Ok (be32 (ri_ssrc i) ++ be8 (ri_fraction i) ++ pl ++ be32 (ri_highest i) ++
                 be32 (ri_jitter i) ++ be32 (ri_lsr i) ++ be32 (ri_dlsr i))
        else Crash
    | _ => Crash
    end
  else Crash.

(* pack_rtcp_packet(packet_type, count, payload) *)
Definition pack_rtcp_packet (packet_type count : Z) (payload : bytes) : result bytes :=
  if negb (Z.eqb (len payload mod 4) 0) then Crash     (* assert *)
  else
    let b0 := Z.lor (Z.shiftl 2 6) count in
    let words := len payload / 4 in
    if in_u8 b0 && in_u8 packet_type && in_u16 words
    then Ok (be8 b0 ++ be8 packet_type ++ be16 words ++ payload)
    else Crash.

(* RtcpRrPacket(ssrc, reports=[info]).__bytes__ *)
Definition rr_bytes (ssrc : Z) (i : rinfo) : result bytes :=
  if in_u32 ssrc then
    match rinfo_bytes i with
    | Ok rb => pack_rtcp_packet rtp_RTCP_RR 1 (be32 ssrc ++ rb)
    | _ => Crash
    end
  else Crash.

(* ---- the receiver: one remote stream, its LSR entry --------------------------- *)
Record recv := mkRecv {
  stream : option stats;        (* __remote_streams[S], absent before the first packet *)
  lsr : option Z;               (* __lsr[S] *)
  lsr_time : Z                  (* __lsr_time[S], in 2^-20 s *)
}.

Definition recv0 : recv := mkRecv None None 0.

Inductive ev :=
| Rtp (seq ts arrival : Z)            (* _handle_rtp_packet, stream SSRC = S *)
| SrEv (ssrc ntp now : Z)             (* _handle_rtcp_packet(RtcpSrPacket) at time `now` *)
| Report (now : Z)                    (* one iteration of the _run_rtcp loop at time `now` *)
| Probe.                              (* read the side-effect free properties *)

Inductive out :=
| ONone
| ORtpCrash
| OProbe (v : result (list Z))
| ONoReport
| OReportCrash
| OReport (i : rinfo) (b : result bytes).

(* lsr / dlsr of _run_rtcp: delay = time.time() - lsr_time; 0 < delay < 65536 s *)
Definition lsr_dlsr (r : recv) (now : Z) : Z * Z :=
  match lsr r with
  | None => (0, 0)
  | Some l =>
      let delay := now - lsr_time r in
      (l, if Z.ltb 0 delay && Z.ltb delay 68719476736 then delay / 16 else 0)
  end.

(* S: SSRC of the remote stream; rs: the receiver's own RTCP SSRC *)
Definition report (S rs : Z) (r : recv) (now : Z) : recv * out :=
  match stream r with
  | None => (r, ONoReport)                       (* `reports` is empty: nothing is sent *)
  | Some s =>
      let '(l, d) := lsr_dlsr r now in
      match fraction_lost s with
      | Ok (fl, s1) =>
          let r1 := mkRecv (Some s1) (lsr r) (lsr_time r) in
          match packets_lost s1, max_seq s1 with
          | Ok pl, Some m =>
              let i := mkInfo S fl pl (Z.land (cycles s1 + m) 4294967295) (jitter s1) l d in
              (r1, OReport i (rr_bytes rs i))
          | _, _ => (r1, OReportCrash)
          end
      | _ => (r, OReportCrash)
      end
  end.

Definition probe (r : recv) : out :=
  match stream r with
  | None => OProbe (Ok [])
  | Some s =>
      match packets_expected s, packets_lost s with
      | Ok e, Ok pl => OProbe (Ok [e; pl; jitter s; packets_received s])
      | _, _ => OProbe Crash
      end
  end.

(* After ORtpCrash the state is returned unchanged; `main` stops at the first
   ORtpCrash (the exception propagates), and C18_fits proves there is none. *)
Definition step (S rs : Z) (r : recv) (e : ev) : recv * out :=
  match e with
  | Rtp seq ts arrival =>
      match add (match stream r with None => init | Some s => s end) seq ts arrival with
      | Ok s' => (mkRecv (Some s') (lsr r) (lsr_time r), ONone)
      | _ => (r, ORtpCrash)
      end
  | SrEv ssrc ntp now =>
      if Z.eqb ssrc S
      then (mkRecv (stream r) (Some (Z.land (Z.shiftr ntp 16) 4294967295)) now, ONone)
      else (r, ONone)
  | Report now => report S rs r now
  | Probe => (r, probe r)
  end.

Fixpoint run (S rs : Z) (r : recv) (evs : list ev) : recv * list out :=
  match evs with
  | [] => (r, [])
  | e :: evs' =>
      let '(r1, o) := step S rs r e in
      let '(r2, os) := run S rs r1 evs' in
      (r2, o :: os)
  end.

(* ---- s-expression glue ------------------------------------------------------- *)
Definition ev_of_sx (x : sx) : ev :=
  let t := sx_z (sx_nth x 0) in
  if Z.eqb t 0 then Rtp (sx_z (sx_nth x 1)) (sx_z (sx_nth x 2)) (sx_z (sx_nth x 3))
  else if Z.eqb t 1 then SrEv (sx_z (sx_nth x 1)) (sx_z (sx_nth x 2)) (sx_z (sx_nth x 3))
  else if Z.eqb t 2 then Report (sx_z (sx_nth x 1))
  else Probe.

Definition sx_of_rbytes (b : result bytes) : sx :=
  match b with
  | Ok l => of_zs l
  | ValueErr => A ERR_VALUE
  | Crash => A ERR_CRASH
  | OutOfFuel => A ERR_FUEL
  end.

Definition sx_of_out (o : out) : sx :=
  match o with
  | ONone => L []
  | ORtpCrash => A ERR_CRASH
  | OProbe v => L [A 3; sx_of_rbytes v]
  | ONoReport => L [A 2]
  | OReportCrash => L [A 2; A ERR_CRASH]
  | OReport i b =>
      L [A 2; of_zs [ri_ssrc i; ri_fraction i; ri_lost i; ri_highest i; ri_jitter i; ri_lsr i; ri_dlsr i];
         sx_of_rbytes b]
  end.

Definition sx_of_stats (s : stats) : sx :=
  L [of_opt A (base_seq s); of_opt A (max_seq s); A (cycles s); A (packets_received s);
     A (jitter_q4 s); of_opt A (last_arrival s); of_opt A (last_timestamp s);
     A (expected_prior s); A (received_prior s)].

Definition state_sx (r : recv) : sx :=
  L [of_opt sx_of_stats (stream r); of_opt A (lsr r); A (lsr_time r)].

Fixpoint until_crash (l : list out) : list out :=
  match l with
  | [] => []
  | ORtpCrash :: _ => [ORtpCrash]
  | o :: l' => o :: until_crash l'
  end.

(* input: (S rs (events)); output: (outputs, final state) *)
Definition main (x : sx) : sx :=
  let S := sx_z (sx_nth x 0) in
  let rs := sx_z (sx_nth x 1) in
  let '(r, outs) := run S rs recv0 (map ev_of_sx (sx_l (sx_nth x 2))) in
  if existsb (fun o => match o with ORtpCrash => true | _ => false end) outs
  then L [L (map sx_of_out (until_crash outs)); L []]
  else L [L (map sx_of_out outs); state_sx r].
