(* The JSEP signalling state machine, written from RFC 8829 (section 3.2 state diagrams;
   5.5 / 5.6 applying a local / remote description; 5.5.1 / 5.6.1 the conditions under which a
   description is rejected) and the exception classes named by property C14.  This file does
   NOT look at Gen/Jsep.v's lists nor at Model/Jsep.v's functions: it only shares the data
   types (signalling states, description types, the description record and the state record).
   Definitions only; the refinement proof is in Proof/JsepP.v. *)
From Coq Require Import ZArith List Bool.
From AV Require Import Gen.Jsep Model.Jsep.
Import ListNotations.
Local Open Scope Z_scope.

Inductive side := Local | Remote.

(* RFC 8829 3.2, figures 2 and 3.  None = "not a valid transition". *)
Definition jsep_next (s : sigstate) (sd : side) (t : dtype) : option sigstate :=
  match s, sd, t with
  | Stable, Local, TOffer => Some HaveLocalOffer
  | Stable, Remote, TOffer => Some HaveRemoteOffer
  | HaveLocalOffer, Local, TOffer => Some HaveLocalOffer
  | HaveLocalOffer, Remote, TAnswer => Some Stable
  | HaveLocalOffer, Remote, TPranswer => Some HaveRemotePranswer
  | HaveLocalOffer, Local, TRollback => Some Stable
  | HaveRemoteOffer, Remote, TOffer => Some HaveRemoteOffer
  | HaveRemoteOffer, Local, TAnswer => Some Stable
  | HaveRemoteOffer, Local, TPranswer => Some HaveLocalPranswer
  | HaveRemoteOffer, Remote, TRollback => Some Stable
  | HaveLocalPranswer, Local, TPranswer => Some HaveLocalPranswer
  | HaveLocalPranswer, Local, TAnswer => Some Stable
  | HaveRemotePranswer, Remote, TPranswer => Some HaveRemotePranswer
  | HaveRemotePranswer, Remote, TAnswer => Some Stable
  | _, _, _ => None
  end.

(* createAnswer needs an offer to answer (RFC 8829 4.1.9 / 5.3) *)
Definition can_create_answer (s : sigstate) : bool :=
  match s with HaveRemoteOffer | HaveLocalPranswer => true | _ => false end.

(* setLocalDescription() without argument (W3C webrtc-pc 4.4.1.5 step 4):
   an offer in stable / have-local-offer / have-remote-pranswer, otherwise an answer *)
Definition implicit_type (s : sigstate) : dtype :=
  match s with
  | Stable | HaveLocalOffer | HaveRemotePranswer => TOffer
  | _ => TAnswer
  end.

(* What C14 requires of a description's content ("lacking ICE credentials, rtcp-mux or a
   definite DTLS role where required"):
     every media section carries ICE credentials;
     an RTP (audio/video) section uses rtcp-mux;
     in an answer the DTLS role is decided (active or passive);
     a remote description states a DTLS role at all. *)
Definition answer_like (t : dtype) : bool :=
  match t with TAnswer | TPranswer => true | _ => false end.
Definition role_decided (r : option role) : bool :=
  match r with Some RClient | Some RServer => true | _ => false end.
Definition role_present (r : option role) : bool :=
  match r with Some _ => true | None => false end.
Definition rtp_kind (k : kind) : bool :=
  match k with KAudio | KVideo => true | KApplication => false end.

Definition media_well_formed (sd : side) (t : dtype) (m : media) : bool :=
  m_ice m
  && (if answer_like t then role_decided (m_dtls m) else true)
  && (match sd with Remote => role_present (m_dtls m) | Local => true end)
  && (if rtp_kind (m_kind m) then m_mux m else true).

Definition well_formed (sd : side) (d : desc) : bool :=
  forallb (media_well_formed sd (d_type d)) (d_media d).

(* the m= sections of a description: (kind, mid) in order *)
Definition sections (d : desc) : list (Z * Z) :=
  map (fun m => (match m_kind m with KAudio => 0 | KVideo => 1 | KApplication => 2 end, m_mid m)) (d_media d).
Fixpoint same_sections (a b : list (Z * Z)) : bool :=
  match a, b with
  | [], [] => true
  | x :: a', y :: b' => Z.eqb (fst x) (fst y) && Z.eqb (snd x) (snd y) && same_sections a' b'
  | _, _ => false
  end.

(* the offer an answer responds to: the PENDING description of the other side *)
Definition offer_answered (s : st) (sd : side) : option desc :=
  match sd with Local => pend_remote s | Remote => pend_local s end.

Definition answers_offer (s : st) (sd : side) (d : desc) : bool :=
  if answer_like (d_type d) then
    match offer_answered s sd with
    | Some o => same_sections (sections d) (sections o)
    | None => false
    end
  else true.

(* verdict on applying description d on side sd: illegal transition -> InvalidStateError,
   nothing changes; legal but unacceptable content -> ValueError, nothing changes; else the
   JSEP successor state *)
Definition judge (s : st) (sd : side) (d : desc) : outcome * sigstate :=
  match jsep_next (sig s) sd (d_type d) with
  | None => (InvalidState, sig s)
  | Some nxt =>
      if well_formed sd d && answers_offer s sd d then (Done, nxt) else (ValueErr, sig s)
  end.

(* expected outcome class and signalling state after one API call *)
Definition spec (s : st) (o : op) : outcome * sigstate :=
  match o with
  | Close => (Done, Closed)
  | CreateOffer =>
      match sig s with Closed => (InvalidState, sig s) | _ => (Done, sig s) end
  | CreateAnswer =>
      if can_create_answer (sig s) then (Done, sig s) else (InvalidState, sig s)
  | SetLocal (Some d) _ => judge s Local d
  | SetLocal None created =>
      judge s Local (mkDesc (d_id created) (implicit_type (sig s)) (d_media created))
  | SetRemote d => judge s Remote d
  end.
