(* Model of aiortc.rate.RemoteBitrateEstimator.add (rate.py 509-580, repaired
   tree) -- the integer orchestration -- and of rtp.pack_remb_fci /
   unpack_remb_fci (rtp.py 174-213).

   InterArrival / OveruseEstimator / OveruseDetector (floating point) are NOT
   modelled: the value of `self.detector.state()` read by add() after the
   inter-arrival block is an input of every call (`a_verdict`), as are the
   float-rounded quantities of AimdRateControl (`a_fl`, see Model/Aimd.v).
   The theorems hold for every verdict sequence.  No proofs here. *)
From Coq Require Import ZArith List Bool.
From AV Require Import Lib.Sx Lib.Bytes Model.RateCounter Model.Aimd.
Import ListNotations.
Local Open Scope Z_scope.

Definition dict := list (Z * Z).            (* insertion ordered: ssrc -> arrival time *)

(* d[k] = v : an existing key keeps its position *)
Fixpoint dict_set (d : dict) (k v : Z) : dict :=
  match d with
  | [] => [(k, v)]
  | (k', v') :: d' => if Z.eqb k k' then (k', v) :: d' else (k', v') :: dict_set d' k v
  end.

Definition keys (d : dict) : list Z := map fst d.

(* l[-n:] for n > 0 *)
Definition lastn {A} (n : nat) (l : list A) : list A := skipn (length l - n) l.

Record rbe := mkRbe {
  incoming : rc;                  (* incoming_bitrate = RateCounter(1000, 8000) *)
  incoming_init : bool;           (* incoming_bitrate_initialized *)
  control : aimd;                 (* rate_control *)
  last_update : option Z;         (* last_update_ms *)
  ssrcs : dict
}.

Definition rbe_init : rbe := mkRbe (init 1000 8000) true aimd_init None [].

Record arrival := mkArrival {
  a_time : Z;                     (* arrival_time_ms *)
  a_send : Z;                     (* abs_send_time (24 bit); only the float filter reads it *)
  a_size : Z;                     (* payload_size *)
  a_ssrc : Z;
  a_verdict : usage;              (* detector.state() after the inter-arrival block *)
  a_fl : fl
}.

Definition feedback_interval : Z := 500.

Definition rbe_add (s : rbe) (a : arrival) : result (rbe * option (Z * list Z)) :=
  let now := a_time a in
  (* make note of SSRC *)
  let ss := dict_set (ssrcs s) (a_ssrc a) now in
  (* update incoming bitrate *)
  match rate (incoming s) now with
  | Ok (r1, x) =>
      let '(r2, ii) :=
        match x with
        | Some _ => (r1, true)
        | None => if incoming_init s then (reset r1, false) else (r1, incoming_init s)
        end in
      match add r2 (a_size a) now with
      | Ok r3 =>
          (* (inter-arrival deltas, estimator, detector: not modelled, verdict is an input) *)
          let update_estimate :=
            match last_update s with
            | None => true
            | Some lu => (feedback_interval <? now - lu) || is_over (a_verdict a)
            end in
          if update_estimate then
            match rate r3 now with
            | Ok (r4, et) =>
                match update (control s) (a_verdict a) et now (a_fl a) with
                | Ok (c', Some target) =>
                    Ok (mkRbe r4 ii c' (Some now) ss, Some (target, lastn 255 (keys ss)))
                | Ok (c', None) => Ok (mkRbe r4 ii c' (last_update s) ss, None)
                | ValueErr => ValueErr | Crash => Crash | OutOfFuel => OutOfFuel
                end
            | ValueErr => ValueErr | Crash => Crash | OutOfFuel => OutOfFuel
            end
          else Ok (mkRbe r3 ii (control s) (last_update s) ss, None)
      | ValueErr => ValueErr | Crash => Crash | OutOfFuel => OutOfFuel
      end
  | ValueErr => ValueErr | Crash => Crash | OutOfFuel => OutOfFuel
  end.

(* for the correspondence only: latest_estimated_throughput after a call and the
   value incoming_bitrate.rate(now) has after it *)
Definition observe (s1 : rbe) (now : Z) : Z * option Z :=
  (latest (control s1),
   match rate (incoming s1) now with Ok (_, r) => r | _ => None end).

(* run until the first exception; per call the return value of add() and the
   observation above *)
Fixpoint run (s : rbe) (l : list arrival) : rbe * list (option (Z * list Z) * (Z * option Z)) * Z :=
  match l with
  | [] => (s, [], 0)
  | a :: l' =>
      match rbe_add s a with
      | Ok (s1, x) => let '(s2, xs, e) := run s1 l' in (s2, (x, observe s1 (a_time a)) :: xs, e)
      | ValueErr => (s, [], ERR_VALUE)
      | Crash => (s, [], ERR_CRASH)
      | OutOfFuel => (s, [], ERR_FUEL)
      end
  end.

(* ---- REMB FCI (rtp.py 174-213) ---------------------------------------------- *)
(* while mantissa > 0x3FFFF: mantissa >>= 1; exponent += 1 *)
Fixpoint remb_norm (fuel : nat) (mantissa exponent : Z) : result (Z * Z) :=
  if 262143 <? mantissa then
    match fuel with
    | O => OutOfFuel
    | S f => remb_norm f (Z.shiftr mantissa 1) (exponent + 1)
    end
  else Ok (mantissa, exponent).

Definition remb_fuel (bitrate : Z) : nat := Z.to_nat (Z.log2 bitrate).

Definition in_range (lo x hi : Z) : bool := (lo <=? x) && (x <? hi).

(* struct.pack raises struct.error (= Crash) on a field out of range *)
Definition pack_remb_fci (bitrate : Z) (ss : list Z) : result bytes :=
  match remb_norm (remb_fuel bitrate) bitrate 0 with
  | Ok (mantissa, exponent) =>
      let b0 := len ss in
      let b1 := Z.lor (Z.shiftl exponent 2) (Z.shiftr mantissa 16) in
      let h := Z.land mantissa 65535 in
      if in_range 0 b0 256 && in_range 0 b1 256 && in_range 0 h 65536
         && forallb (fun x => in_range 0 x 4294967296) ss
      then Ok ([82; 69; 77; 66] ++ be8 b0 ++ be8 b1 ++ be16 h ++ flat_map be32 ss)
      else Crash
  | ValueErr => ValueErr | Crash => Crash | OutOfFuel => OutOfFuel
  end.

Fixpoint remb_ssrc_list (data : bytes) (pos : nat) (n : nat) : option (list Z) :=
  match n with
  | O => Some []
  | S n' => match u32 data pos with
            | None => None
            | Some x => match remb_ssrc_list data (4 + pos) n' with
                        | None => None
                        | Some l => Some (x :: l)
                        end
            end
  end.

Definition unpack_remb_fci (data : bytes) : result (Z * list Z) :=
  if (Nat.ltb (length data) 8) || negb (bytes_eqb (slice data 0 4) [82; 69; 77; 66])
  then ValueErr
  else match u8 data 4, u8 data 5, u8 data 6, u8 data 7 with
       | Some cnt, Some d5, Some d6, Some d7 =>
           if len data <? 8 + cnt * 4 then ValueErr
           else
             let exponent := Z.shiftr (Z.land d5 252) 2 in
             let mantissa := Z.lor (Z.lor (Z.shiftl (Z.land d5 3) 16) (Z.shiftl d6 8)) d7 in
             let bitrate := Z.shiftl mantissa exponent in
             match remb_ssrc_list data 8 (Z.to_nat cnt) with
             | Some l => Ok (bitrate, l)
             | None => Crash
             end
       | _, _, _, _ => Crash
       end.

(* ---- s-expression glue ------------------------------------------------------ *)
(* (time send size ssrc verdict fl) *)
Definition arrival_of_sx (x : sx) : arrival :=
  mkArrival (sx_z (sx_nth x 0)) (sx_z (sx_nth x 1)) (sx_z (sx_nth x 2)) (sx_z (sx_nth x 3))
            (usage_of_z (sx_z (sx_nth x 4))) (fl_of_sx (sx_nth x 5)).

(* per call: (latest rate) or (latest rate estimate ssrcs remb), rate = () | (r),
   remb = (0 bytes) | (status) *)
Definition remb_sx (r : result bytes) : sx :=
  match r with
  | Ok b => L [A 0; of_zs b]
  | ValueErr => L [A ERR_VALUE]
  | Crash => L [A ERR_CRASH]
  | OutOfFuel => L [A ERR_FUEL]
  end.

Definition out_sx (o : option (Z * list Z) * (Z * option Z)) : sx :=
  match fst o with
  | None => L [A (fst (snd o)); of_opt A (snd (snd o))]
  | Some (e, l) => L [A (fst (snd o)); of_opt A (snd (snd o)); A e; of_zs l; remb_sx (pack_remb_fci e l)]
  end.

Definition rbe_sx (s : rbe) : sx :=
  L [state_sx (incoming s); of_b (incoming_init s); aimd_sx (control s); of_opt A (last_update s);
     L (map (fun kv => L [A (fst kv); A (snd kv)]) (ssrcs s))].

(* input: (0 arrivals) -> (status outs state)
          (1 bitrate ssrcs) -> pack_remb_fci / unpack_remb_fci round trip:
                               (packed (0 bitrate' ssrcs') | (status)) *)
Definition main (x : sx) : sx :=
  if Z.eqb (sx_z (sx_nth x 0)) 0 then
    let '(s, outs, e) := run rbe_init (map arrival_of_sx (sx_l (sx_nth x 1))) in
    L [A e; L (map out_sx outs); rbe_sx s]
  else
    let p := pack_remb_fci (sx_z (sx_nth x 1)) (sx_zs (sx_nth x 2)) in
    L [remb_sx p;
       match p with
       | Ok b => match unpack_remb_fci b with
                 | Ok (v, l) => L [A 0; A v; of_zs l]
                 | ValueErr => L [A ERR_VALUE]
                 | Crash => L [A ERR_CRASH]
                 | OutOfFuel => L [A ERR_FUEL]
                 end
       | _ => L []
       end].
