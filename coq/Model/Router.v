(* Model of aiortc.rtcdtlstransport.RtpRouter (rtcdtlstransport.py 243-338).
   Receivers / senders are integer handles (object identity).  Python dicts are
   association lists (first match wins, set = replace), Python sets are
   duplicate-free lists.  No proofs here. *)
From Coq Require Import ZArith List Bool.
From AV Require Import Lib.Sx Lib.Bytes Gen.RtpConst.
Import ListNotations.
Local Open Scope Z_scope.

Definition dict := list (Z * Z).

Fixpoint lookup (d : dict) (k : Z) : option Z :=
  match d with
  | [] => None
  | (k', v) :: d' => if Z.eqb k k' then Some v else lookup d' k
  end.

Fixpoint dremove (d : dict) (k : Z) : dict :=
  match d with
  | [] => []
  | (k', v) :: d' => if Z.eqb k k' then dremove d' k else (k', v) :: dremove d' k
  end.

Definition dset (d : dict) (k v : Z) : dict := (k, v) :: dremove d k.

(* RtpRouter.__discard: drop every entry whose value is `v` *)
Definition discard (d : dict) (v : Z) : dict :=
  filter (fun kv => negb (Z.eqb (snd kv) v)) d.

Definition mem (x : Z) (l : list Z) : bool := existsb (Z.eqb x) l.
Definition sadd (x : Z) (l : list Z) : list Z := if mem x l then l else x :: l.
Definition sdiscard (x : Z) (l : list Z) : list Z := filter (fun y => negb (Z.eqb y x)) l.
Fixpoint sunion (a b : list Z) : list Z :=
  match a with [] => b | x :: a' => sadd x (sunion a' b) end.

Definition pttable := list (Z * list Z).
Fixpoint pt_get (t : pttable) (pt : Z) : list Z :=
  match t with
  | [] => []
  | (p, rs) :: t' => if Z.eqb pt p then rs else pt_get t' pt
  end.
Fixpoint pt_has (t : pttable) (pt : Z) : bool :=
  match t with
  | [] => false
  | (p, _) :: t' => Z.eqb pt p || pt_has t' pt
  end.
Fixpoint pt_add (t : pttable) (pt r : Z) : pttable :=
  match t with
  | [] => [(pt, [r])]
  | (p, rs) :: t' => if Z.eqb pt p then (p, sadd r rs) :: t' else (p, rs) :: pt_add t' pt r
  end.
Definition pt_discard (t : pttable) (r : Z) : pttable :=
  map (fun e => (fst e, sdiscard r (snd e))) t.

Record router := mkRouter {
  receivers : list Z;
  senders : dict;            (* ssrc -> sender *)
  mid_table : dict;          (* mid  -> receiver *)
  ssrc_table : dict;         (* ssrc -> receiver *)
  pt_table : pttable         (* payload type -> set of receivers *)
}.

Definition empty : router := mkRouter [] [] [] [] [].

Definition register_receiver (s : router) (r : Z) (ssrcs pts : list Z) (mid : option Z) : router :=
  mkRouter (sadd r (receivers s))
           (senders s)
           (match mid with Some m => dset (mid_table s) m r | None => mid_table s end)
           (fold_left (fun d ssrc => dset d ssrc r) ssrcs (ssrc_table s))
           (fold_left (fun t pt => pt_add t pt r) pts (pt_table s)).

Definition register_sender (s : router) (snd ssrc : Z) : router :=
  mkRouter (receivers s) (dset (senders s) ssrc snd) (mid_table s) (ssrc_table s) (pt_table s).

Definition unregister_receiver (s : router) (r : Z) : router :=
  mkRouter (sdiscard r (receivers s)) (senders s) (discard (mid_table s) r)
           (discard (ssrc_table s) r) (pt_discard (pt_table s) r).

Definition unregister_sender (s : router) (snd : Z) : router :=
  mkRouter (receivers s) (discard (senders s) snd) (mid_table s) (ssrc_table s) (pt_table s).

Definition route_rtp (s : router) (ssrc pt : Z) : option Z * router :=
  let ssrc_receiver := lookup (ssrc_table s) ssrc in
  let pt_receivers := pt_get (pt_table s) pt in
  match ssrc_receiver with
  | Some r => if mem r pt_receivers then (Some r, s) else (None, s)
  | None =>
      match pt_receivers with
      | [r] => (Some r, mkRouter (receivers s) (senders s) (mid_table s)
                                 (dset (ssrc_table s) ssrc r) (pt_table s))
      | _ => (None, s)
      end
  end.

(* ---- RTCP: the fields route_rtcp looks at --------------------------------- *)
Inductive remb_result := RembOk (ssrcs : list Z) | RembValueError | RembCrash.

(* rtp.unpack_remb_fci (rtp.py 194-213), SSRC list only *)
Fixpoint remb_ssrcs (data : bytes) (pos : nat) (n : nat) : option (list Z) :=
  match n with
  | O => Some []
  | S n' => match u32 data pos with
            | None => None
            | Some x => match remb_ssrcs data (4 + pos) n' with
                        | None => None
                        | Some l => Some (x :: l)
                        end
            end
  end.

Definition unpack_remb_ssrcs (data : bytes) : remb_result :=
  if (Nat.ltb (length data) 8) || negb (bytes_eqb (slice data 0 4) [82; 69; 77; 66])
  then RembValueError
  else match u8 data 4 with
       | None => RembCrash
       | Some cnt =>
           if Z.ltb (len data) (8 + 4 * cnt) then RembValueError
           else match remb_ssrcs data 8 (Z.to_nat cnt) with
                | Some l => RembOk l
                | None => RembCrash
                end
       end.

Inductive rtcp :=
| Sr (ssrc : Z) (reports : list Z)
| Rr (reports : list Z)
| Sdes
| Bye (sources : list Z)
| Rtpfb (media_ssrc : Z)
| Psfb (fmt : Z) (media_ssrc : Z) (fci : bytes).

Definition lookups (d : dict) (ks : list Z) : list Z :=
  fold_right (fun k acc => match lookup d k with Some v => sadd v acc | None => acc end) [] ks.

(* result: (receivers, senders, raised) *)
Definition route_rtcp (s : router) (p : rtcp) : list Z * list Z * bool :=
  match p with
  | Sr ssrc reports => (lookups (ssrc_table s) [ssrc], lookups (senders s) reports, false)
  | Rr reports => ([], lookups (senders s) reports, false)
  | Sdes => ([], [], false)
  | Bye sources => (lookups (ssrc_table s) sources, [], false)
  | Rtpfb m => ([], lookups (senders s) [m], false)
  | Psfb fmt m fci =>
      if Z.eqb fmt rtp_RTCP_PSFB_APP then
        match unpack_remb_ssrcs fci with
        | RembOk l => ([], sunion (lookups (senders s) [m]) (lookups (senders s) l), false)
        | RembValueError => ([], lookups (senders s) [m], false)
        | RembCrash => ([], [], true)
        end
      else ([], lookups (senders s) [m], false)
  end.

Inductive op :=
| RegRecv (r : Z) (ssrcs pts : list Z) (mid : option Z)
| RegSend (snd ssrc : Z)
| UnregRecv (r : Z)
| UnregSend (snd : Z)
| RouteRtp (ssrc pt : Z)
| RouteRtcp (p : rtcp).

Inductive out :=
| ONone
| ORtp (r : option Z)
| ORtcp (rs ss : list Z) (raised : bool).

Definition step (s : router) (o : op) : router * out :=
  match o with
  | RegRecv r ssrcs pts mid => (register_receiver s r ssrcs pts mid, ONone)
  | RegSend snd ssrc => (register_sender s snd ssrc, ONone)
  | UnregRecv r => (unregister_receiver s r, ONone)
  | UnregSend snd => (unregister_sender s snd, ONone)
  | RouteRtp ssrc pt => let '(r, s') := route_rtp s ssrc pt in (s', ORtp r)
  | RouteRtcp p => let '(rs, ss, e) := route_rtcp s p in (s, ORtcp rs ss e)
  end.

Fixpoint run (s : router) (ops : list op) : router * list out :=
  match ops with
  | [] => (s, [])
  | o :: ops' => let '(s1, x) := step s o in
                 let '(s2, xs) := run s1 ops' in (s2, x :: xs)
  end.

(* ---- s-expression glue ---------------------------------------------------- *)
Definition op_of_sx (x : sx) : op :=
  let t := sx_z (sx_nth x 0) in
  if Z.eqb t 0 then RegRecv (sx_z (sx_nth x 1)) (sx_zs (sx_nth x 2)) (sx_zs (sx_nth x 3))
                            (sx_opt sx_z (sx_nth x 4))
  else if Z.eqb t 1 then RegSend (sx_z (sx_nth x 1)) (sx_z (sx_nth x 2))
  else if Z.eqb t 2 then UnregRecv (sx_z (sx_nth x 1))
  else if Z.eqb t 3 then UnregSend (sx_z (sx_nth x 1))
  else if Z.eqb t 4 then RouteRtp (sx_z (sx_nth x 1)) (sx_z (sx_nth x 2))
  else
    let k := sx_z (sx_nth x 1) in
    RouteRtcp (if Z.eqb k 0 then Sr (sx_z (sx_nth x 2)) (sx_zs (sx_nth x 3))
               else if Z.eqb k 1 then Rr (sx_zs (sx_nth x 2))
               else if Z.eqb k 2 then Sdes
               else if Z.eqb k 3 then Bye (sx_zs (sx_nth x 2))
               else if Z.eqb k 4 then Rtpfb (sx_z (sx_nth x 2))
               else Psfb (sx_z (sx_nth x 2)) (sx_z (sx_nth x 3)) (sx_zs (sx_nth x 4))).

Definition sx_of_out (o : out) : sx :=
  match o with
  | ONone => L []
  | ORtp r => L [A 1; of_opt A r]
  | ORtcp rs ss e => L [A 2; of_zs rs; of_zs ss; of_b e]
  end.

Definition dict_sx (d : dict) : sx := L (map (fun kv => L [A (fst kv); A (snd kv)]) d).

Definition state_sx (s : router) : sx :=
  L [of_zs (receivers s); dict_sx (senders s); dict_sx (mid_table s); dict_sx (ssrc_table s);
     L (map (fun e => L [A (fst e); of_zs (snd e)]) (pt_table s))].

(* input: list of ops; output: (outs, final state) *)
Definition main (x : sx) : sx :=
  let '(s, outs) := run empty (map op_of_sx (sx_l x)) in
  L [L (map sx_of_out outs); state_sx s].
