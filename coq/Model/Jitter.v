(* Model of aiortc.jitterbuffer.JitterBuffer (src/aiortc/jitterbuffer.py 15-124):
   __init__ (16-24), add (30-61), _remove_frame (63-98), remove (100-105),
   smart_remove (107-124), transcribed loop by loop.  A packet is the triple the
   buffer looks at: (sequence_number, timestamp, _data).  The ring is a list of
   optional packets of length `capacity`; `_origin` is an optional integer.
   Exceptions are values: `Crash` = AssertionError (remove), ZeroDivisionError
   (`% capacity` with capacity 0), IndexError (slot access), TypeError (`None %`).
   A capacity <= 0 can only be 0 after `create` (the constructor's assertion
   rejects every negative number), so `pymod` treating c <= 0 as a crash is
   exact on every reachable state.  No proofs here. *)
From Coq Require Import ZArith List Bool.
From AV Require Import Lib.Sx Lib.Bytes Gen.Utils Gen.JbConst.
Import ListNotations.
Local Open Scope Z_scope.

Inductive result (A : Type) : Type :=
| Ok (a : A)
| ValueErr
| Crash
| OutOfFuel.
Arguments Ok {A} a.
Arguments ValueErr {A}.
Arguments Crash {A}.
Arguments OutOfFuel {A}.

Definition bind {A B} (r : result A) (f : A -> result B) : result B :=
  match r with
  | Ok a => f a
  | ValueErr => ValueErr
  | Crash => Crash
  | OutOfFuel => OutOfFuel
  end.

Record pkt := mkPkt { pseq : Z; pts : Z; pdata : bytes }.
Record frame := mkFrame { fts : Z; fdata : bytes }.

Record jb := mkJb {
  cap : Z;                       (* _capacity *)
  prefetch : Z;                  (* _prefetch *)
  is_video : bool;               (* _is_video *)
  origin : option Z;             (* _origin *)
  slots : list (option pkt)      (* _packets *)
}.

(* JitterBuffer.__init__ : the power-of-two assertion, then an empty ring *)
Definition create (c pf : Z) (v : bool) : result jb :=
  if Z.land c (c - 1) =? 0
  then Ok (mkJb c pf v None (repeat None (Z.to_nat c)))
  else Crash.

(* `a % c` used as a list index *)
Definition pymod (a c : Z) : option nat :=
  if c <=? 0 then None else Some (Z.to_nat (a mod c)).

(* l[n] = x  (IndexError = None) *)
Fixpoint set_nth {A} (l : list A) (n : nat) (x : A) : option (list A) :=
  match l, n with
  | [], _ => None
  | _ :: t, O => Some (x :: t)
  | h :: t, S n' => match set_nth t n' x with
                    | Some t' => Some (h :: t')
                    | None => None
                    end
  end.

(* remove(count), lines 100-105; the loop body runs `n` times *)
Fixpoint remove_loop (n : nat) (c o : Z) (sl : list (option pkt)) : result (Z * list (option pkt)) :=
  match n with
  | O => Ok (o, sl)
  | S n' =>
      match pymod o c with
      | None => Crash
      | Some pos =>
          match set_nth sl pos None with
          | None => Crash
          | Some sl' => remove_loop n' c (uint16_add o 1) sl'
          end
      end
  end.

Definition remove (c o : Z) (sl : list (option pkt)) (count : Z) : result (Z * list (option pkt)) :=
  if count >? c then Crash                         (* assert count <= self._capacity *)
  else remove_loop (Z.to_nat count) c o sl.

(* `timestamp != packet.timestamp` where timestamp may still be None *)
Definition ts_differs (t : option Z) (x : Z) : bool :=
  match t with
  | None => true
  | Some y => negb (y =? x)
  end.

(* smart_remove(count), lines 107-124: `n` iterations left, loop index `i` *)
Fixpoint smart_loop (n : nat) (i count c : Z) (tsv : option Z) (o : Z) (sl : list (option pkt))
  : result (bool * Z * list (option pkt)) :=
  match n with
  | O => Ok (false, o, sl)
  | S n' =>
      match pymod o c with
      | None => Crash
      | Some pos =>
          match nth_error sl pos with
          | None => Crash
          | Some cell =>
              let continue (tsv' : option Z) :=
                match set_nth sl pos None with
                | None => Crash
                | Some sl' =>
                    let o' := uint16_add o 1 in
                    if i =? c - 1 then Ok (true, o', sl')
                    else smart_loop n' (i + 1) count c tsv' o' sl'
                end in
              match cell with
              | Some p =>
                  if (i >=? count) && ts_differs tsv (pts p) then Ok (false, o, sl)
                  else continue (Some (pts p))
              | None => continue tsv
              end
          end
      end
  end.

Definition smart_remove (c o : Z) (sl : list (option pkt)) (count : Z) : result (bool * Z * list (option pkt)) :=
  smart_loop (Z.to_nat c) 0 count c None o sl.

(* the scan of _remove_frame, lines 70-98: returns the frame to release and the
   number of slots to remove, or None *)
Fixpoint rf_loop (n : nat) (count c o : Z) (sl : list (option pkt)) (pf : Z)
         (fr : option frame) (frames : Z) (packets : list pkt) (rem : Z) (tsv : option Z)
  : result (option (frame * Z)) :=
  match n with
  | O => Ok None
  | S n' =>
      match pymod (o + count) c with
      | None => Crash
      | Some pos =>
          match nth_error sl pos with
          | None => Crash
          | Some None => Ok None
          | Some (Some p) =>
              match tsv with
              | None =>
                  rf_loop n' (count + 1) c o sl pf fr frames (packets ++ [p]) rem (Some (pts p))
              | Some t =>
                  if negb (pts p =? t) then
                    let fr' := match fr with
                               | None => mkFrame t (concat (map pdata packets))
                               | Some f => f
                               end in
                    let rem' := match fr with None => count | Some _ => rem end in
                    let frames' := frames + 1 in
                    if frames' >=? pf then Ok (Some (fr', rem'))
                    else rf_loop n' (count + 1) c o sl pf (Some fr') frames' [p] rem' (Some (pts p))
                  else
                    rf_loop n' (count + 1) c o sl pf fr frames (packets ++ [p]) rem tsv
              end
          end
      end
  end.

Definition remove_frame (c pf o : Z) (sl : list (option pkt))
  : result (Z * list (option pkt) * option frame) :=
  bind (rf_loop (Z.to_nat c) 0 c o sl pf None 0 [] 0 None) (fun r =>
  match r with
  | None => Ok (o, sl, None)
  | Some (f, rem) => bind (remove c o sl rem) (fun os => Ok (fst os, snd os, Some f))
  end).

Definition out := (bool * option frame)%type.

(* lines 50-61: overflow handling, slot placement, frame extraction *)
Definition add_place (s : jb) (p : pkt) (o delta : Z) (sl : list (option pkt)) (pli : bool)
  : result (jb * out) :=
  let c := cap s in
  bind (if delta >=? c then
          let excess := delta - c + 1 in
          bind (smart_remove c o sl excess) (fun r =>
            let '(full, o', sl') := r in
            Ok ((if full then pseq p else o'), sl', pli || is_video s))
        else Ok (o, sl, pli)) (fun r =>
  let '(o1, sl1, pli1) := r in
  match pymod (pseq p) c with
  | None => Crash
  | Some pos =>
      match set_nth sl1 pos (Some p) with
      | None => Crash
      | Some sl2 =>
          bind (remove_frame c (prefetch s) o1 sl2) (fun r2 =>
            let '(o3, sl3, fr) := r2 in
            Ok (mkJb c (prefetch s) (is_video s) (Some o3) sl3, (pli1, fr)))
      end
  end).

(* add(), lines 30-61 *)
Definition add (s : jb) (p : pkt) : result (jb * out) :=
  let c := cap s in
  match origin s with
  | None => add_place s p (pseq p) 0 (slots s) false
  | Some o =>
      let delta := uint16_add (pseq p) (- o) in
      let misorder := uint16_add o (- pseq p) in
      if misorder <? delta then
        if misorder >=? MAX_MISORDER then
          bind (remove c o (slots s) c) (fun os =>
            add_place s p (pseq p) 0 (snd os) (is_video s))
        else Ok (s, (false, None))
      else add_place s p o delta (slots s) false
  end.

(* a history of add() calls; stops at the first exception *)
Fixpoint run (s : jb) (l : list pkt) : result (jb * list out) :=
  match l with
  | [] => Ok (s, [])
  | p :: l' =>
      bind (add s p) (fun r =>
        bind (run (fst r) l') (fun r' => Ok (fst r', snd r :: snd r')))
  end.

(* same, keeping every intermediate state (used by the correspondence glue) *)
Fixpoint trace (s : jb) (l : list pkt) : list (jb * out) * Z :=
  match l with
  | [] => ([], 0)
  | p :: l' =>
      match add s p with
      | Ok (s', o) => let '(t, e) := trace s' l' in ((s', o) :: t, e)
      | ValueErr => ([], ERR_VALUE)
      | Crash => ([], ERR_CRASH)
      | OutOfFuel => ([], ERR_FUEL)
      end
  end.

(* ---- s-expression glue ---------------------------------------------------- *)
Definition pkt_of_sx (x : sx) : pkt :=
  mkPkt (sx_z (sx_nth x 0)) (sx_z (sx_nth x 1)) (sx_zs (sx_nth x 2)).

Fixpoint occ (sl : list (option pkt)) (i : Z) : list sx :=
  match sl with
  | [] => []
  | None :: t => occ t (i + 1)
  | Some p :: t => L [A i; A (pseq p); A (pts p); of_zs (pdata p)] :: occ t (i + 1)
  end.

Definition step_sx (so : jb * out) : sx :=
  let '(s, (pli, fr)) := so in
  L [of_b pli;
     of_opt (fun f => L [A (fts f); of_zs (fdata f)]) fr;
     of_opt A (origin s);
     A (Z.of_nat (length (slots s)));
     L (occ (slots s) 0)].

(* input: (capacity prefetch is_video (packets)); output: (status (steps)) *)
Definition main (x : sx) : sx :=
  match create (sx_z (sx_nth x 0)) (sx_z (sx_nth x 1)) (sx_b (sx_nth x 2)) with
  | Ok s => let '(t, e) := trace s (map pkt_of_sx (sx_l (sx_nth x 3))) in
            L [A e; L (map step_sx t)]
  | _ => L [A ERR_CRASH; L []]
  end.
