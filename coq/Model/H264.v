(* Model of the H.264 RTP payload format code in aiortc/codecs/h264.py:
     H264PayloadDescriptor.parse      (52-104)
     H264Encoder._packetize_fu_a      (131-168)
     H264Encoder._packetize_stap_a    (170-202)
     H264Encoder._split_bitstream     (204-230)
     H264Encoder._packetize           (232-246)
     h264_depayload                   (317-319)
   Executable definitions only, no proofs.  Byte strings are `list Z`; the
   constants come from the generated Gen/H264Const.v.
   Exceptions are values (Lib/CodecX.result): ValueErr = ValueError, Crash =
   any other exception (IndexError, ZeroDivisionError, struct.error,
   AssertionError), OutOfFuel = the Python loop would not terminate. *)
From Coq Require Import ZArith List Bool.
From AV Require Import Lib.Sx Lib.Bytes Lib.CodecX Gen.H264Const.
Import ListNotations.
Local Open Scope Z_scope.

Definition START_CODE : bytes := [0; 0; 0; 1].

(* ---- H264PayloadDescriptor.parse ---------------------------------------- *)

(* the `while pos < len(data)` loop of the STAP-A branch (83-92): the list of
   offsets appended, in order *)
Fixpoint stap_offsets (fuel : nat) (data : bytes) (pos : Z) : result (list Z) :=
  if pos <? len data then
    match fuel with
    | O => OutOfFuel
    | S f =>
        if len data <? pos + h264_LENGTH_FIELD_SIZE then ValueErr
        else match u16 data (Z.to_nat pos) with
             | None => Crash                         (* struct.error *)
             | Some nalu_size =>
                 let pos1 := pos + h264_LENGTH_FIELD_SIZE in
                 let pos2 := pos1 + nalu_size in
                 if len data <? pos2 then ValueErr
                 else l <- stap_offsets f data pos2 ;; Ok (pos1 :: l)
             end
    end
  else Ok [].

(* for start, end in pairwise(offsets): output += 00 00 00 01 + data[start:end-2] (95-98) *)
Fixpoint pairwise_out (data : bytes) (offsets : list Z) : bytes :=
  match offsets with
  | start :: ((end_ :: _) as tl) =>
      START_CODE ++ pyslice data start (end_ - h264_LENGTH_FIELD_SIZE) ++ pairwise_out data tl
  | _ => []
  end.

(* returns (first_fragment, output) *)
Definition parse (data : bytes) : result (bool * bytes) :=
  if len data <? 2 then ValueErr
  else match u8 data 0 with
  | None => Crash
  | Some b0 =>
    let nal_type := Z.land b0 31 in
    let f_nri := Z.land b0 224 in                    (* 0x80 | 0x60 *)
    let pos := h264_NAL_HEADER_SIZE in
    if (1 <=? nal_type) && (nal_type <? 24) then
      Ok (true, START_CODE ++ data)
    else if nal_type =? h264_NAL_TYPE_FU_A then
      match pyidx data pos with
      | None => Crash                                (* IndexError *)
      | Some b1 =>
          let original_nal_type := Z.land b1 31 in
          let first_fragment := negb (Z.land b1 128 =? 0) in
          let pos := pos + 1 in
          let output := if first_fragment then START_CODE ++ [Z.lor f_nri original_nal_type] else [] in
          Ok (first_fragment, output ++ pyfrom data pos)
      end
    else if nal_type =? h264_NAL_TYPE_STAP_A then
      offsets <- stap_offsets (S (length data)) data pos ;;
      Ok (true, pairwise_out data (offsets ++ [len data + h264_LENGTH_FIELD_SIZE]))
    else ValueErr
  end.

Definition depayload (payload : bytes) : result bytes :=
  '(_, data) <- parse payload ;; Ok data.

(* ---- H264Encoder._packetize_fu_a ---------------------------------------- *)

(* math.ceil(a / b) for b <> 0.  Python divides as floats; the exact ceiling is
   the same value for every length a real byte string can have (< 2^40). *)
Definition ceil_div (a b : Z) : Z := - ((- a) / b).

(* the `while offset < len(data)` loop (151-165) and the final assertion (166).
   hdr = current fu_header; hm / he = fu_header_middle / fu_header_end *)
Fixpoint fu_loop (fuel : nat) (data : bytes) (offset num_larger package_size : Z)
         (hdr hm he : bytes) : result (list bytes) :=
  if offset <? len data then
    match fuel with
    | O => OutOfFuel
    | S f =>
        let '(payload, offset', num_larger') :=
          if 0 <? num_larger
          then (pyslice data offset (offset + package_size + 1), offset + package_size + 1, num_larger - 1)
          else (pyslice data offset (offset + package_size), offset + package_size, num_larger) in
        let hdr' := if offset' =? len data then he else hdr in
        rest <- fu_loop f data offset' num_larger' package_size hm hm he ;;
        Ok ((hdr' ++ payload) :: rest)
    end
  else if offset =? len data then Ok [] else Crash.   (* assert offset == len(data) *)

Definition packetize_fu_a (data : bytes) : result (list bytes) :=
  let available_size := h264_PACKET_MAX - h264_FU_A_HEADER_SIZE in
  let payload_size := len data - h264_NAL_HEADER_SIZE in
  if available_size =? 0 then Crash                  (* ZeroDivisionError *)
  else
    let num_packets := ceil_div payload_size available_size in
    if num_packets =? 0 then Crash                   (* ZeroDivisionError in % *)
    else
      let num_larger_packets := payload_size mod num_packets in
      let package_size := payload_size / num_packets in
      match u8 data 0 with
      | None => Crash                                (* IndexError *)
      | Some d0 =>
          let f_nri := Z.land d0 224 in
          let nal := Z.land d0 31 in
          let fu_indicator := Z.lor f_nri h264_NAL_TYPE_FU_A in
          let fu_header_end := [fu_indicator; Z.lor nal 64] in
          let fu_header_middle := [fu_indicator; nal] in
          let fu_header_start := [fu_indicator; Z.lor nal 128] in
          fu_loop (length data) data h264_NAL_HEADER_SIZE num_larger_packets package_size
                  fu_header_start fu_header_middle fu_header_end
      end.

(* ---- H264Encoder._packetize_stap_a -------------------------------------- *)

(* the `while len(nalu) <= available_size and counter < 9` loop (182-192).
   `rest` is what the iterator still holds.  Result: (stap_header, counter,
   payload, nalu or None after StopIteration, remaining iterator). *)
Fixpoint stap_loop (nalu : bytes) (rest : list bytes) (available_size counter stap_header : Z)
         (payload : bytes) : result (Z * Z * bytes * option bytes * list bytes) :=
  if (len nalu <=? available_size) && (counter <? 9) then
    match u8 nalu 0 with
    | None => Crash                                  (* IndexError: empty NAL unit *)
    | Some n0 =>
        let stap_header := Z.lor stap_header (Z.land n0 128) in
        let nri := Z.land n0 96 in
        let stap_header := if Z.land stap_header 96 <? nri
                           then Z.lor (Z.land stap_header 159) nri else stap_header in
        let available_size := available_size - (h264_LENGTH_FIELD_SIZE + len nalu) in
        let counter := counter + 1 in
        if 65535 <? len nalu then Crash              (* struct.error in pack("!H") *)
        else
          let payload := payload ++ be16 (len nalu) ++ nalu in
          match rest with
          | [] => Ok (stap_header, counter, payload, None, [])       (* StopIteration *)
          | n :: rest' => stap_loop n rest' available_size counter stap_header payload
          end
    end
  else Ok (stap_header, counter, payload, Some nalu, rest).

Definition next_of (rest : list bytes) : option bytes * list bytes :=
  match rest with
  | [] => (None, [])
  | n :: r => (Some n, r)
  end.

(* returns (packet, next NAL unit or None, remaining iterator) *)
Definition packetize_stap_a (data : bytes) (rest : list bytes)
  : result (bytes * option bytes * list bytes) :=
  let available_size := h264_PACKET_MAX - h264_STAP_A_HEADER_SIZE in
  match u8 data 0 with
  | None => Crash                                    (* IndexError *)
  | Some d0 =>
      let stap_header := Z.lor h264_NAL_TYPE_STAP_A (Z.land d0 224) in
      '(stap_header, counter, payload, nalu, rest') <-
         stap_loop data rest available_size 0 stap_header [] ;;
      let '(nalu, rest') := if counter =? 0 then next_of rest' else (nalu, rest') in
      if counter <=? 1 then Ok (data, nalu, rest')
      else if (0 <=? stap_header) && (stap_header <? 256)
           then Ok ([stap_header] ++ payload, nalu, rest')
           else ValueErr                             (* bytes([x]) with x outside range(256) *)
  end.

(* ---- H264Encoder._packetize --------------------------------------------- *)

Fixpoint packetize_loop (fuel : nat) (package : option bytes) (rest : list bytes)
  : result (list bytes) :=
  match package with
  | None => Ok []
  | Some p =>
      match fuel with
      | O => OutOfFuel
      | S f =>
          if h264_PACKET_MAX <? len p then
            pk <- packetize_fu_a p ;;
            let '(nxt, rest') := next_of rest in
            l <- packetize_loop f nxt rest' ;;
            Ok (pk ++ l)
          else
            '(pkt, nxt, rest') <- packetize_stap_a p rest ;;
            l <- packetize_loop f nxt rest' ;;
            Ok (pkt :: l)
      end
  end.

Definition packetize (packages : list bytes) : result (list bytes) :=
  let '(first, rest) := next_of packages in
  packetize_loop (length packages) first rest.

(* ---- H264Encoder._split_bitstream --------------------------------------- *)

Definition starts_sc (l : bytes) : bool :=
  match l with
  | a :: b :: c :: _ => (a =? 0) && (b =? 0) && (c =? 1)
  | _ => false
  end.

(* position of the first 00 00 01 in l, where l's first element has index idx *)
Fixpoint find_from (l : bytes) (idx : Z) : option Z :=
  match l with
  | [] => None
  | _ :: tl => if starts_sc l then Some idx else find_from tl (idx + 1)
  end.

(* buf.find(b"\x00\x00\x01", i) for i >= 0; None = -1 *)
Definition find_sc (buf : bytes) (i : Z) : option Z :=
  if len buf <? i then None else find_from (skipn (Z.to_nat i) buf) i.

Fixpoint split_loop (fuel : nat) (buf : bytes) (i : Z) : result (list bytes) :=
  match fuel with
  | O => OutOfFuel
  | S f =>
      match find_sc buf i with
      | None => Ok []
      | Some i1 =>
          let i2 := i1 + 3 in
          let nal_start := i2 in
          match find_sc buf i2 with
          | None => Ok [pyslice buf nal_start (len buf)]
          | Some i3 =>
              match pyidx buf (i3 - 1) with
              | None => Crash                        (* IndexError *)
              | Some b =>
                  let nal := if b =? 0 then pyslice buf nal_start (i3 - 1)
                             else pyslice buf nal_start i3 in
                  l <- split_loop f buf i3 ;; Ok (nal :: l)
              end
          end
      end
  end.

Definition split_bitstream (buf : bytes) : result (list bytes) :=
  split_loop (S (length buf)) buf 0.

(* ---- s-expression glue -------------------------------------------------- *)
Definition sx_bytes_list (l : list bytes) : sx := L (map of_zs l).

Definition sx_parse (r : result (bool * bytes)) : sx :=
  sx_of_result (fun p => L [of_b (fst p); of_zs (snd p)]) r.

(* input (op args...):
   0 data          -> parse
   1 (nal ...)     -> _packetize, then h264_depayload of every payload
   2 buf           -> _split_bitstream
   3 data          -> _packetize_fu_a
   4 data (nal...) -> _packetize_stap_a with an iterator over the list
   5 data          -> parse of every prefix data[:k], k = 0..len(data) *)
Definition main (x : sx) : sx :=
  let op := sx_z (sx_nth x 0) in
  if op =? 0 then sx_parse (parse (sx_zs (sx_nth x 1)))
  else if op =? 1 then
    sx_of_result (fun pk => L [sx_bytes_list pk; L (map (fun p => sx_parse (parse p)) pk)])
                 (packetize (map sx_zs (sx_l (sx_nth x 1))))
  else if op =? 2 then sx_of_result sx_bytes_list (split_bitstream (sx_zs (sx_nth x 1)))
  else if op =? 3 then sx_of_result sx_bytes_list (packetize_fu_a (sx_zs (sx_nth x 1)))
  else if op =? 5 then
    let data := sx_zs (sx_nth x 1) in
    L (map (fun k => sx_parse (parse (firstn k data))) (seq 0 (S (length data))))
  else
    sx_of_result (fun r => let '(pkt, nxt, rest) := r in
                           L [of_zs pkt; of_opt of_zs nxt; sx_bytes_list rest])
                 (packetize_stap_a (sx_zs (sx_nth x 1)) (map sx_zs (sx_l (sx_nth x 2)))).
