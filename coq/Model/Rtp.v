(* Model of the RTP half of aiortc/rtp.py (property C07; parser totality for C05):
     HeaderExtensionsMap.get / set (repaired)           rtp.py 78-150
     unpack_header_extensions / pack_header_extensions  rtp.py 229-313
     RtpPacket.parse / serialize                        rtp.py 645-756
     unwrap_rtx / wrap_rtx                              rtp.py 759-792
   The id table of the HeaderExtensionsMap is the parameter `ids`.  A Python str
   (mid, rid, repaired rid) is modelled by its UTF-8 encoding: `.decode("utf8")`
   succeeds iff `utf8_valid`, `.decode("ascii")` / `.encode("ascii")` iff every
   byte < 128 (UnicodeError is a ValueError).  os.urandom(padding_size - 1) is the
   input `pad`.  RtpPacket.version is the constant 2 set by the constructor.
   struct.error / IndexError / AssertionError are `Crash`.  No proofs here. *)
From Coq Require Import ZArith List Bool.
From AV Require Import Lib.Sx Lib.Bytes Lib.RtpX Gen.RtpConst.
Import ListNotations.
Local Open Scope Z_scope.

(* ------------------------------------------------------------ text codecs *)
Definition cont (b : Z) : bool := (128 <=? b) && (b <=? 191).

(* strict UTF-8 (no overlong forms, no surrogates, <= U+10FFFF), as CPython *)
Fixpoint utf8_valid (l : bytes) : bool :=
  match l with
  | [] => true
  | b0 :: t =>
      if b0 <? 128 then utf8_valid t
      else if (194 <=? b0) && (b0 <=? 223) then
        match t with
        | b1 :: t1 => cont b1 && utf8_valid t1
        | _ => false
        end
      else if (224 <=? b0) && (b0 <=? 239) then
        match t with
        | b1 :: b2 :: t2 =>
            (if b0 =? 224 then (160 <=? b1) && (b1 <=? 191)
             else if b0 =? 237 then (128 <=? b1) && (b1 <=? 159)
             else cont b1) && cont b2 && utf8_valid t2
        | _ => false
        end
      else if (240 <=? b0) && (b0 <=? 244) then
        match t with
        | b1 :: b2 :: b3 :: t3 =>
            (if b0 =? 240 then (144 <=? b1) && (b1 <=? 191)
             else if b0 =? 244 then (128 <=? b1) && (b1 <=? 143)
             else cont b1) && cont b2 && cont b3 && utf8_valid t3
        | _ => false
        end
      else false
  end.

Definition ascii_valid (l : bytes) : bool := all_lt 128 l.

(* ------------------------------------------------------------ RFC 5285 elements *)
Definition ext := (Z * bytes)%type.

(* first loop of pack_header_extensions: the asserts and the one_byte flag *)
Fixpoint pack_scan (xs : list ext) (one_byte : bool) : result bool :=
  match xs with
  | [] => Ok one_byte
  | (x_id, x_value) :: xs' =>
      let x_length := len x_value in
      if negb ((0 <? x_id) && (x_id <? 256)) then Crash
      else if negb ((0 <=? x_length) && (x_length <? 256)) then Crash
      else pack_scan xs' (if (14 <? x_id) || (x_length =? 0) || (16 <? x_length)
                          then false else one_byte)
  end.

Fixpoint pack_one (xs : list ext) : result bytes :=
  match xs with
  | [] => Ok []
  | (x_id, x_value) :: xs' =>
      let b := Z.lor (Z.shiftl x_id 4) (len x_value - 1) in
      if u8ok b then do r <- pack_one xs'; Ok (be8 b ++ x_value ++ r) else Crash
  end.

Fixpoint pack_two (xs : list ext) : result bytes :=
  match xs with
  | [] => Ok []
  | (x_id, x_value) :: xs' =>
      if u8ok x_id && u8ok (len x_value)
      then do r <- pack_two xs'; Ok (be8 x_id ++ be8 (len x_value) ++ x_value ++ r)
      else Crash
  end.

Definition pack_header_extensions (xs : list ext) : result (Z * bytes) :=
  match xs with
  | [] => Ok (0, [])
  | _ =>
      do one_byte <- pack_scan xs true;
      do v <- (if one_byte then pack_one xs else pack_two xs);
      Ok (if one_byte then 48862 else 4096, v ++ zeros (Z.to_nat (rtp_padl (len v))))
  end.

(* while pos < len(extension_value): one-byte form *)
Fixpoint unpack_one (fuel : nat) (rest : bytes) : result (list ext) :=
  match fuel with
  | O => OutOfFuel
  | S f =>
      match rest with
      | [] => Ok []
      | b :: rest' =>
          if b =? 0 then unpack_one f rest'
          else
            let x_id := Z.shiftr (Z.land b 240) 4 in
            let x_length := Z.land b 15 + 1 in
            if len rest' <? x_length then ValueErr
            else do l <- unpack_one f (skipn (Z.to_nat x_length) rest');
                 Ok ((x_id, firstn (Z.to_nat x_length) rest') :: l)
      end
  end.

(* two-byte form *)
Fixpoint unpack_two (fuel : nat) (rest : bytes) : result (list ext) :=
  match fuel with
  | O => OutOfFuel
  | S f =>
      match rest with
      | [] => Ok []
      | b :: rest' =>
          if b =? 0 then unpack_two f rest'
          else match rest' with
               | [] => ValueErr
               | x_length :: rest'' =>
                   if len rest'' <? x_length then ValueErr
                   else do l <- unpack_two f (skipn (Z.to_nat x_length) rest'');
                        Ok ((b, firstn (Z.to_nat x_length) rest'') :: l)
               end
      end
  end.

Definition unpack_header_extensions (profile : Z) (value : bytes) : result (list ext) :=
  if profile =? 48862 then unpack_one (S (length value)) value
  else if profile =? 4096 then unpack_two (S (length value)) value
  else Ok [].

(* ------------------------------------------------------------ HeaderExtensionsMap *)
Record ids := mkIds {
  id_abs : option Z; id_audio : option Z; id_mid : option Z; id_rrid : option Z;
  id_rid : option Z; id_toffset : option Z; id_tsn : option Z }.

Record hext := mkHext {
  abs_send_time : option Z;
  audio_level : option (bool * Z);
  mid : option bytes;
  rrid : option bytes;                 (* repaired_rtp_stream_id *)
  rid : option bytes;                  (* rtp_stream_id *)
  toffset : option Z;                  (* transmission_offset *)
  tsn : option Z }.                    (* transport_sequence_number *)

Definition hext_empty : hext := mkHext None None None None None None None.

(* x_id == self.__ids.<name>   (None never equals an int) *)
Definition ideq (o : option Z) (x : Z) : bool :=
  match o with Some i => i =? x | None => false end.
(* `and self.__ids.<name>`: configured and non-zero *)
Definition idset (o : option Z) : option Z :=
  match o with Some i => if i =? 0 then None else Some i | None => None end.

Definition get_step (m : ids) (acc : hext) (x : ext) : result hext :=
  let '(x_id, x_value) := x in
  if ideq (id_mid m) x_id then
    if utf8_valid x_value
    then Ok (mkHext (abs_send_time acc) (audio_level acc) (Some x_value) (rrid acc) (rid acc)
                    (toffset acc) (tsn acc))
    else ValueErr
  else if ideq (id_rrid m) x_id then
    if ascii_valid x_value
    then Ok (mkHext (abs_send_time acc) (audio_level acc) (mid acc) (Some x_value) (rid acc)
                    (toffset acc) (tsn acc))
    else ValueErr
  else if ideq (id_rid m) x_id then
    if ascii_valid x_value
    then Ok (mkHext (abs_send_time acc) (audio_level acc) (mid acc) (rrid acc) (Some x_value)
                    (toffset acc) (tsn acc))
    else ValueErr
  else if ideq (id_abs m) x_id && Nat.eqb (length x_value) 3 then
    match u24 x_value 0 with
    | Some v => Ok (mkHext (Some v) (audio_level acc) (mid acc) (rrid acc) (rid acc)
                           (toffset acc) (tsn acc))
    | None => Crash
    end
  else if ideq (id_toffset m) x_id && Nat.eqb (length x_value) 3 then
    match u24 x_value 0 with
    | Some v => Ok (mkHext (abs_send_time acc) (audio_level acc) (mid acc) (rrid acc) (rid acc)
                           (Some (if v <? 8388608 then v else v - 16777216)) (tsn acc))
    | None => Crash
    end
  else if ideq (id_audio m) x_id && Nat.eqb (length x_value) 1 then
    match u8 x_value 0 with
    | Some v => Ok (mkHext (abs_send_time acc) (Some (Z.land v 128 =? 128, Z.land v 127)) (mid acc)
                           (rrid acc) (rid acc) (toffset acc) (tsn acc))
    | None => Crash
    end
  else if ideq (id_tsn m) x_id && Nat.eqb (length x_value) 2 then
    match u16 x_value 0 with
    | Some v => Ok (mkHext (abs_send_time acc) (audio_level acc) (mid acc) (rrid acc) (rid acc)
                           (toffset acc) (Some v))
    | None => Crash
    end
  else Ok acc.

Fixpoint get_fold (m : ids) (acc : hext) (xs : list ext) : result hext :=
  match xs with
  | [] => Ok acc
  | x :: xs' => do acc' <- get_step m acc x; get_fold m acc' xs'
  end.

Definition hext_get (m : ids) (profile : Z) (value : bytes) : result hext :=
  do xs <- unpack_header_extensions profile value;
  get_fold m hext_empty xs.

(* one optional element of `extensions` in HeaderExtensionsMap.set *)
Definition opt_ext {T} (v : option T) (i : option Z) (enc : T -> result bytes) : result (list ext) :=
  match v, idset i with
  | Some x, Some n => do b <- enc x; Ok [(n, b)]
  | _, _ => Ok []
  end.

Definition enc_utf8 (s : bytes) : result bytes := Ok s.
Definition enc_ascii (s : bytes) : result bytes := if ascii_valid s then Ok s else ValueErr.
(* pack("!L", v)[1:] *)
Definition enc_abs (v : Z) : result bytes := if u32ok v then Ok (be24 v) else Crash.
(* pack("!l", v << 8)[0:3] *)
Definition enc_toffset (v : Z) : result bytes := if i32ok (Z.shiftl v 8) then Ok (be24 v) else Crash.
(* pack("!B", (0x80 if vad else 0) | (level & 0x7F)) *)
Definition enc_audio (a : bool * Z) : result bytes :=
  Ok (be8 (Z.lor (if fst a then 128 else 0) (Z.land (snd a) 127))).
Definition enc_tsn (v : Z) : result bytes := if u16ok v then Ok (be16 v) else Crash.

Definition hext_elements (m : ids) (v : hext) : result (list ext) :=
  do e1 <- opt_ext (mid v) (id_mid m) enc_utf8;
  do e2 <- opt_ext (rrid v) (id_rrid m) enc_ascii;
  do e3 <- opt_ext (rid v) (id_rid m) enc_ascii;
  do e4 <- opt_ext (abs_send_time v) (id_abs m) enc_abs;
  do e5 <- opt_ext (toffset v) (id_toffset m) enc_toffset;
  do e6 <- opt_ext (audio_level v) (id_audio m) enc_audio;
  do e7 <- opt_ext (tsn v) (id_tsn m) enc_tsn;
  Ok (e1 ++ e2 ++ e3 ++ e4 ++ e5 ++ e6 ++ e7).

Definition hext_set (m : ids) (v : hext) : result (Z * bytes) :=
  do xs <- hext_elements m v;
  pack_header_extensions xs.

(* ------------------------------------------------------------ RtpPacket *)
Record rtp := mkRtp {
  marker : Z; payload_type : Z; sequence_number : Z; timestamp : Z; ssrc : Z;
  csrc : list Z; extensions : hext; payload : bytes; padding_size : Z }.

Definition rtp_serialize (m : ids) (p : rtp) (pad : bytes) : result bytes :=
  do (extension_profile, extension_value) <- hext_set m (extensions p);
  let has_extension := negb (is_nil extension_value) in
  let padding := 0 <? padding_size p in
  let b0 := Z.lor (Z.lor (Z.lor (Z.shiftl 2 6) (Z.shiftl (b2z padding) 5))
                         (Z.shiftl (b2z has_extension) 4)) (zlen (csrc p)) in
  let b1 := Z.lor (Z.shiftl (marker p) 7) (payload_type p) in
  if u8ok b0 && u8ok b1 && u16ok (sequence_number p) && u32ok (timestamp p) && u32ok (ssrc p) then
    do cs <- be32s (csrc p);
    do ex <- (if has_extension then
                let words := Z.shiftr (len extension_value) 2 in
                if u16ok extension_profile && u16ok words
                then Ok (be16 extension_profile ++ be16 words ++ extension_value)
                else Crash
              else Ok []);
    do tail <- (if padding then
                  (* os.urandom(padding_size - 1) + bytes([padding_size]) *)
                  if padding_size p <? 256 then Ok (pad ++ [padding_size p]) else ValueErr
                else Ok []);
    Ok (be8 b0 ++ be8 b1 ++ be16 (sequence_number p) ++ be32 (timestamp p) ++ be32 (ssrc p)
        ++ cs ++ ex ++ payload p ++ tail)
  else Crash.

Definition rtp_parse (m : ids) (data : bytes) : result rtp :=
  if Nat.ltb (length data) 12 then ValueErr
  else match u8 data 0, u8 data 1, u16 data 2, u32 data 4, u32 data 8 with
       | Some v_p_x_cc, Some m_pt, Some seq, Some ts, Some ssrc_ =>
           let version := Z.shiftr v_p_x_cc 6 in
           let padding := Z.land (Z.shiftr v_p_x_cc 5) 1 in
           let extension := Z.land (Z.shiftr v_p_x_cc 4) 1 in
           let cc := Z.land v_p_x_cc 15 in
           if negb (version =? 2) then ValueErr
           else if len data <? 12 + cc * 4 then ValueErr
           else match u32s data 12 (Z.to_nat cc) with
                | None => Crash
                | Some csrc_ =>
                    let pos := (12 + 4 * Z.to_nat cc)%nat in
                    do (exts, pos1) <-
                       (if extension =? 0 then Ok (hext_empty, pos)
                        else if Nat.ltb (length data) (pos + 4) then ValueErr
                        else match u16 data pos, u16 data (pos + 2) with
                             | Some profile, Some words =>
                                 let elen := Z.to_nat (words * 4) in
                                 let p1 := (pos + 4)%nat in
                                 if Nat.ltb (length data) (p1 + elen) then ValueErr
                                 else do e <- hext_get m profile (slice data p1 (p1 + elen));
                                      Ok (e, (p1 + elen)%nat)
                             | _, _ => Crash
                             end);
                    do (payload_, padsize) <-
                       (if padding =? 0 then Ok (from data pos1, 0)
                        else match last_byte data with
                             | None => Crash
                             | Some pl =>
                                 if (pl =? 0) || (len data - Z.of_nat pos1 <? pl) then ValueErr
                                 else Ok (slice data pos1 (length data - Z.to_nat pl), pl)
                             end);
                    Ok (mkRtp (Z.shiftr m_pt 7) (Z.land m_pt 127) seq ts ssrc_ csrc_ exts
                              payload_ padsize)
                end
       | _, _, _, _, _ => Crash
       end.

(* ------------------------------------------------------------ RTX *)
Definition wrap_rtx (p : rtp) (pt seq ssrc_ : Z) : result rtp :=
  if u16ok (sequence_number p)
  then Ok (mkRtp (marker p) pt seq (timestamp p) ssrc_ (csrc p) (extensions p)
                 (be16 (sequence_number p) ++ payload p) 0)
  else Crash.

(* unpack("!H", rtx.payload[0:2]) needs two bytes *)
Definition unwrap_rtx (r : rtp) (pt ssrc_ : Z) : result rtp :=
  match u16 (payload r) 0 with
  | Some seq => Ok (mkRtp (marker r) pt seq (timestamp r) ssrc_ (csrc r) (extensions r)
                          (from (payload r) 2) 0)
  | None => Crash
  end.

(* ------------------------------------------------------------ s-expression glue *)
Definition ext_of_sx (x : sx) : ext := (sx_z (sx_nth x 0), sx_zs (sx_nth x 1)).
Definition sx_of_ext (e : ext) : sx := L [A (fst e); of_zs (snd e)].

Definition ids_of_sx (x : sx) : ids :=
  mkIds (sx_optz (sx_nth x 0)) (sx_optz (sx_nth x 1)) (sx_optz (sx_nth x 2)) (sx_optz (sx_nth x 3))
        (sx_optz (sx_nth x 4)) (sx_optz (sx_nth x 5)) (sx_optz (sx_nth x 6)).

Definition hext_of_sx (x : sx) : hext :=
  mkHext (sx_optz (sx_nth x 0))
         (sx_opt (fun a => (sx_b (sx_nth a 0), sx_z (sx_nth a 1))) (sx_nth x 1))
         (sx_opt sx_zs (sx_nth x 2)) (sx_opt sx_zs (sx_nth x 3)) (sx_opt sx_zs (sx_nth x 4))
         (sx_optz (sx_nth x 5)) (sx_optz (sx_nth x 6)).

Definition sx_of_hext (h : hext) : sx :=
  L [of_optz (abs_send_time h);
     of_opt (fun a : bool * Z => L [of_b (fst a); A (snd a)]) (audio_level h);
     of_opt of_zs (mid h); of_opt of_zs (rrid h); of_opt of_zs (rid h);
     of_optz (toffset h); of_optz (tsn h)].

Definition rtp_of_sx (x : sx) : rtp :=
  mkRtp (sx_z (sx_nth x 0)) (sx_z (sx_nth x 1)) (sx_z (sx_nth x 2)) (sx_z (sx_nth x 3))
        (sx_z (sx_nth x 4)) (sx_zs (sx_nth x 5)) (hext_of_sx (sx_nth x 6)) (sx_zs (sx_nth x 7))
        (sx_z (sx_nth x 8)).

Definition sx_of_rtp (p : rtp) : sx :=
  L [A (marker p); A (payload_type p); A (sequence_number p); A (timestamp p); A (ssrc p);
     of_zs (csrc p); sx_of_hext (extensions p); of_zs (payload p); A (padding_size p)].

Definition sx_of_pv (r : Z * bytes) : sx := L [A (fst r); of_zs (snd r)].

(* input (op args...):
     0 ((id bytes)...)          pack_header_extensions   -> (profile bytes)
     1 profile bytes            unpack_header_extensions -> ((id bytes)...)
     2 ids hext                 HeaderExtensionsMap.set  -> (profile bytes)
     3 ids profile bytes        HeaderExtensionsMap.get  -> hext
     4 ids packet pad           RtpPacket.serialize      -> bytes
     5 ids bytes                RtpPacket.parse          -> packet
     6 packet pt seq ssrc       wrap_rtx                 -> packet
     7 packet pt ssrc           unwrap_rtx               -> packet
   output: (0 value) | (-1) | (-2) | (-3) *)
Definition main (x : sx) : sx :=
  let op := sx_z (sx_nth x 0) in
  if op =? 0 then sx_res sx_of_pv (pack_header_extensions (map ext_of_sx (sx_l (sx_nth x 1))))
  else if op =? 1 then
    sx_res (fun l => L (map sx_of_ext l)) (unpack_header_extensions (sx_z (sx_nth x 1)) (sx_zs (sx_nth x 2)))
  else if op =? 2 then sx_res sx_of_pv (hext_set (ids_of_sx (sx_nth x 1)) (hext_of_sx (sx_nth x 2)))
  else if op =? 3 then
    sx_res sx_of_hext (hext_get (ids_of_sx (sx_nth x 1)) (sx_z (sx_nth x 2)) (sx_zs (sx_nth x 3)))
  else if op =? 4 then
    sx_res of_zs (rtp_serialize (ids_of_sx (sx_nth x 1)) (rtp_of_sx (sx_nth x 2)) (sx_zs (sx_nth x 3)))
  else if op =? 5 then sx_res sx_of_rtp (rtp_parse (ids_of_sx (sx_nth x 1)) (sx_zs (sx_nth x 2)))
  else if op =? 6 then
    sx_res sx_of_rtp (wrap_rtx (rtp_of_sx (sx_nth x 1)) (sx_z (sx_nth x 2)) (sx_z (sx_nth x 3))
                               (sx_z (sx_nth x 4)))
  else sx_res sx_of_rtp (unwrap_rtx (rtp_of_sx (sx_nth x 1)) (sx_z (sx_nth x 2)) (sx_z (sx_nth x 3))).
