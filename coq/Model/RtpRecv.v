(* Model of the receiving half of aiortc/rtcrtpreceiver.py that property C11 speaks about:
     NackGenerator.add / truncate                       rtcrtpreceiver.py 84-120
     TimestampMapper.map                                rtcrtpreceiver.py 223-232
     RTCRtpReceiver._handle_rtp_packet for video        rtcrtpreceiver.py 488-546
       (codec lookup, RTX unwrap guard, NACK emission with sorted(missing), depayload,
        JitterBuffer.add, PLI request, hand-over to the decoder queue)
     _send_rtcp_nack / _send_rtcp_pli (the `__rtcp_ssrc is not None` guard)   601-620
   Reused, not re-modelled: unwrap_rtx (Model/Rtp.v, C07), h264/vp8 depayload
   (Model/H264.v, Model/Vp8.v, C16), JitterBuffer (Model/Jitter.v, C10).
   The Python set `missing` is a list read as a set (add = cons, discard = remove every
   copy, sorted(missing) = strictly increasing list of its elements).
   Not modelled (other properties): the bitrate estimator / REMB (C15) -- the
   correspondence feeds packets without abs-send-time --, `__active_ssrc`, the
   StreamStatistics (C18), the RTCP wire encoding (C07).  `_enabled` is True and the
   decoder thread exists (after receive()).  No proofs here. *)
From Coq Require Import ZArith List Bool.
From AV Require Import Lib.Sx Lib.Bytes Lib.RtpX Gen.Utils Gen.RtpConst.
From AV Require Lib.CodecX Model.Rtp Model.Jitter Model.H264 Model.Vp8.
Import ListNotations.
Local Open Scope Z_scope.


(* ------------------------------------------------------------ NackGenerator *)
Record nackgen := mkNack { max_seq : option Z; missing : list Z }.

Definition nack_init : nackgen := mkNack None [].

Definition discard (x : Z) (l : list Z) : list Z := filter (fun y => negb (y =? x)) l.

(* lines 96-100: seq = max_seq + 1; while uint16_gt(packet.sequence_number, seq): ... *)
Fixpoint mark_loop (fuel : nat) (target seq : Z) (miss : list Z) (missed : bool)
  : option (list Z * bool) :=
  match fuel with
  | O => None
  | S f =>
      if uint16_gt target seq
      then mark_loop f target (uint16_add seq 1) (seq :: miss) true
      else Some (miss, missed)
  end.

(* truncate(), lines 110-120 *)
Definition truncate (g : nackgen) : nackgen :=
  match max_seq g with
  | Some m =>
      let min_seq := uint16_add m (- rtp_RTP_HISTORY_SIZE) in
      mkNack (Some m) (filter (fun seq => negb (uint16_gt min_seq seq)) (missing g))
  | None => g
  end.

Definition MARK_FUEL : nat := Z.to_nat 65537.

(* add(), lines 84-108; None = the while loop does not end *)
Definition nack_add (g : nackgen) (sequence_number : Z) : option (nackgen * bool) :=
  match max_seq g with
  | None => Some (mkNack (Some sequence_number) (missing g), false)
  | Some m =>
      if uint16_gt sequence_number m then
        match mark_loop MARK_FUEL sequence_number (uint16_add m 1) (missing g) false with
        | Some (miss, missed) => Some (truncate (mkNack (Some sequence_number) miss), missed)
        | None => None
        end
      else Some (truncate (mkNack (Some m) (discard sequence_number (missing g))), false)
  end.

(* sorted(set) *)
Fixpoint ins (x : Z) (l : list Z) : list Z :=
  match l with
  | [] => [x]
  | y :: t => if x <? y then x :: l else if x =? y then l else y :: ins x t
  end.
Definition sorted_set (l : list Z) : list Z := fold_right ins [] l.

(* ------------------------------------------------------------ TimestampMapper *)
(* (_last, _origin); both None before the first call *)
Definition tsmap := option (Z * Z).

Definition ts_map (m : tsmap) (timestamp : Z) : tsmap * Z :=
  match m with
  | None => (Some (timestamp, timestamp), 0)
  | Some (last, origin) =>
      let origin' := if timestamp <? last then origin - 4294967296 else origin in
      (Some (timestamp, origin'), timestamp - origin')
  end.

(* ------------------------------------------------------------ receiver *)
Inductive ckind :=
| KVp8                      (* codec.name == "VP8" *)
| KH264                     (* codec.name == "H264" *)
| KOther                    (* any other name: depayload returns the payload *)
| KRtx (apt : option Z).    (* name.lower() == "rtx"; apt = the "apt" parameter when it is an int *)

Record config := mkConfig {
  codecs : list (Z * ckind);        (* __codecs: payload type -> codec (first match = dict entry) *)
  rtx_ssrc : list (Z * Z);          (* __rtx_ssrc: RTX SSRC -> media SSRC *)
  rtcp_ssrc : option Z              (* __rtcp_ssrc *)
}.

Fixpoint assoc {T} (l : list (Z * T)) (k : Z) : option T :=
  match l with
  | [] => None
  | (k', v) :: l' => if k =? k' then Some v else assoc l' k
  end.

Record receiver := mkReceiver { nack : nackgen; jbuf : Jitter.jb; tmap : tsmap }.

(* codecs.depayload *)
Definition depayload (k : ckind) (payload : bytes) : CodecX.result bytes :=
  match k with
  | KVp8 => AV.Model.Vp8.depayload payload
  | KH264 => AV.Model.H264.depayload payload
  | _ => CodecX.Ok payload
  end.

(* lines 526-530: `if packet.payload: depayload(codec, payload) else b""` *)
Definition payload_data (k : ckind) (payload : bytes) : CodecX.result bytes :=
  match payload with
  | [] => CodecX.Ok []
  | _ => depayload k payload
  end.

Record rout := mkRout {
  o_nack : option (Z * Z * list Z);    (* NACK on the wire: sender ssrc, media ssrc, lost *)
  o_pli : option (Z * Z);              (* PLI on the wire: sender ssrc, media ssrc *)
  o_frame : option (Z * Z * bytes)     (* decoder queue: codec payload type, mapped timestamp, data *)
}.

Definition quiet : rout := mkRout None None None.

(* lines 501-517.  Result: None = packet dropped, Some (packet', codec pt, codec kind) *)
Definition unwrap_stage (c : config) (p : Rtp.rtp) : result (option (Rtp.rtp * Z * ckind)) :=
  match assoc (codecs c) (Rtp.payload_type p) with
  | None => Ok None
  | Some (KRtx apt) =>
      match assoc (rtx_ssrc c) (Rtp.ssrc p) with
      | None => Ok None
      | Some original_ssrc =>
          match apt with
          | None => Ok None
          | Some a =>
              if Nat.ltb (length (Rtp.payload p)) 2 then Ok None
              else match assoc (codecs c) a with
                   | None => Ok None
                   | Some k => do q <- Rtp.unwrap_rtx p a original_ssrc; Ok (Some (q, a, k))
                   end
          end
      end
  | Some k => Ok (Some (p, Rtp.payload_type p, k))
  end.

(* lines 519-546 on the (unwrapped) packet *)
Definition media_stage (c : config) (s : receiver) (p : Rtp.rtp) (cpt : Z) (k : ckind)
  : result (receiver * rout) :=
  match nack_add (nack s) (Rtp.sequence_number p) with
  | None => OutOfFuel
  | Some (g, missed) =>
      let o_n := if missed
                 then match rtcp_ssrc c with
                      | Some me => Some (me, Rtp.ssrc p, sorted_set (missing g))
                      | None => None
                      end
                 else None in
      match payload_data k (Rtp.payload p) with
      | CodecX.ValueErr => Ok (mkReceiver g (jbuf s) (tmap s), mkRout o_n None None)
      | CodecX.Crash => Crash
      | CodecX.OutOfFuel => OutOfFuel
      | CodecX.Ok d =>
          match Jitter.add (jbuf s) (Jitter.mkPkt (Rtp.sequence_number p) (Rtp.timestamp p) d) with
          | Jitter.Ok (jb', (pli, fr)) =>
              let o_p := if pli
                         then match rtcp_ssrc c with Some me => Some (me, Rtp.ssrc p) | None => None end
                         else None in
              match fr with
              | Some f =>
                  let '(tm', t) := ts_map (tmap s) (Jitter.fts f) in
                  Ok (mkReceiver g jb' tm', mkRout o_n o_p (Some (cpt, t, Jitter.fdata f)))
              | None => Ok (mkReceiver g jb' (tmap s), mkRout o_n o_p None)
              end
          | Jitter.ValueErr => ValueErr
          | Jitter.Crash => Crash
          | Jitter.OutOfFuel => OutOfFuel
          end
      end
  end.

Definition handle_rtp (c : config) (s : receiver) (p : Rtp.rtp) : result (receiver * rout) :=
  do u <- unwrap_stage c p;
  match u with
  | None => Ok (s, quiet)
  | Some (q, cpt, k) => media_stage c s q cpt k
  end.

Fixpoint run (c : config) (s : receiver) (l : list Rtp.rtp) : result (receiver * list rout) :=
  match l with
  | [] => Ok (s, [])
  | p :: l' =>
      do r <- handle_rtp c s p;
      do r' <- run c (fst r) l';
      Ok (fst r', snd r :: snd r')
  end.

(* RTCRtpReceiver("video", ...): JitterBuffer(capacity=128, is_video=True), NackGenerator() *)
Definition VIDEO_CAPACITY : Z := 128.
Definition init_video : receiver :=
  mkReceiver nack_init (Jitter.mkJb VIDEO_CAPACITY 0 true None (repeat None (Z.to_nat VIDEO_CAPACITY))) None.

Fixpoint trace (c : config) (s : receiver) (l : list Rtp.rtp) : receiver * list rout * Z :=
  match l with
  | [] => (s, [], 0)
  | p :: l' =>
      match handle_rtp c s p with
      | Ok (s', x) => let '(s2, xs, e) := trace c s' l' in (s2, x :: xs, e)
      | ValueErr => (s, [], ERR_VALUE)
      | Crash => (s, [], ERR_CRASH)
      | OutOfFuel => (s, [], ERR_FUEL)
      end
  end.

(* NackGenerator alone: the sequence numbers of the packets given to add() *)
Fixpoint nack_trace (g : nackgen) (l : list Z) : list (bool * nackgen) * Z :=
  match l with
  | [] => ([], 0)
  | x :: l' =>
      match nack_add g x with
      | Some (g', missed) => let '(t, e) := nack_trace g' l' in ((missed, g') :: t, e)
      | None => ([], ERR_FUEL)
      end
  end.

(* ---- s-expression glue ---------------------------------------------------- *)
Definition kind_of_sx (x : sx) : ckind :=
  let t := sx_z (sx_nth x 0) in
  if t =? 0 then KVp8 else if t =? 1 then KH264 else if t =? 2 then KOther
  else KRtx (sx_opt sx_z (sx_nth x 1)).

Definition config_of_sx (x : sx) : config :=
  mkConfig (map (fun y => (sx_z (sx_nth y 0), kind_of_sx (sx_nth y 1))) (sx_l (sx_nth x 0)))
           (map (fun y => (sx_z (sx_nth y 0), sx_z (sx_nth y 1))) (sx_l (sx_nth x 1)))
           (sx_opt sx_z (sx_nth x 2)).

Definition sx_of_nack (g : nackgen) : sx :=
  L [of_opt A (max_seq g); of_zs (sorted_set (missing g))].

Definition sx_of_rout (o : rout) : sx :=
  L [of_opt (fun n : Z * Z * list Z => L [A (fst (fst n)); A (snd (fst n)); of_zs (snd n)]) (o_nack o);
     of_opt (fun n : Z * Z => L [A (fst n); A (snd n)]) (o_pli o);
     of_opt (fun f : Z * Z * bytes => L [A (fst (fst f)); A (snd (fst f)); of_zs (snd f)]) (o_frame o)].

(* input: (0 (seq ...))            NackGenerator  -> (status ((missed max_seq sorted-missing) ...))
          (1 config (packet ...))  video receiver -> (status (rout ...) final-nack origin) *)
Definition main (x : sx) : sx :=
  if sx_z (sx_nth x 0) =? 0 then
    let '(t, e) := nack_trace nack_init (sx_zs (sx_nth x 1)) in
    L [A e; L (map (fun mg : bool * nackgen => L [of_b (fst mg); sx_of_nack (snd mg)]) t)]
  else
    let '(s, outs, e) := trace (config_of_sx (sx_nth x 1)) init_video (map Rtp.rtp_of_sx (sx_l (sx_nth x 2))) in
    L [A e; L (map sx_of_rout outs); sx_of_nack (nack s); of_opt A (Jitter.origin (jbuf s))].
