(* Sender-side fragmentation of RTCSctpTransport._send (rtcsctptransport.py) and the
   PPID mapping of _data_channel_send / _data_channel_receive.  Definitions only. *)
From Coq Require Import ZArith List Bool.
From AV Require Import Lib.Sx Lib.Bytes Gen.Utils Gen.SctpConst Model.SctpRecv.
Import ListNotations.
Local Open Scope Z_scope.

Definition frag_size : nat := Z.to_nat USERDATA_MAX_LENGTH.

(* math.ceil(len(user_data) / USERDATA_MAX_LENGTH) *)
Definition fragments_count (data : bytes) : nat :=
  Z.to_nat ((len data + (USERDATA_MAX_LENGTH - 1)) / USERDATA_MAX_LENGTH).

(* the for-loop over fragments; n = fragments still to produce *)
Fixpoint frag_loop (n : nat) (data : bytes) (t : Z) (stream seq : Z) (unord : bool) (pp : Z)
         (is_first : bool) : list chunk :=
  match n with
  | O => []
  | S n' =>
      mkChunk t stream seq unord is_first (Nat.eqb n' 0) pp (firstn frag_size data)
      :: frag_loop n' (skipn frag_size data) (tsn_plus_one t) stream seq unord pp false
  end.

Record outmsg := mkOut { o_sid : Z; o_ordered : bool; o_ppid : Z; o_data : bytes }.

(* sender state relevant to fragmentation: _local_tsn and _outbound_stream_seq *)
Record sstate := mkS { local_tsn : Z; stream_seq : list (Z * Z) }.

Fixpoint seq_get (l : list (Z * Z)) (k : Z) : Z :=
  match l with [] => 0 | (k', v) :: l' => if Z.eqb k k' then v else seq_get l' k end.
Fixpoint seq_set (l : list (Z * Z)) (k v : Z) : list (Z * Z) :=
  match l with
  | [] => [(k, v)]
  | (k', w) :: l' => if Z.eqb k k' then (k', v) :: l' else (k', w) :: seq_set l' k v
  end.

Fixpoint tsn_advance (n : nat) (t : Z) : Z :=
  match n with O => t | S n' => tsn_advance n' (tsn_plus_one t) end.

Definition send_msg (s : sstate) (m : outmsg) : sstate * list chunk :=
  let sq := if o_ordered m then seq_get (stream_seq s) (o_sid m) else 0 in
  let n := fragments_count (o_data m) in
  let chunks := frag_loop n (o_data m) (local_tsn s) (o_sid m) sq (negb (o_ordered m)) (o_ppid m) true in
  (mkS (tsn_advance n (local_tsn s))
       (if o_ordered m then seq_set (stream_seq s) (o_sid m) (uint16_add sq 1) else stream_seq s),
   chunks).

Fixpoint send_msgs (s : sstate) (ms : list outmsg) : list (list chunk) :=
  match ms with
  | [] => []
  | m :: ms' => let '(s1, cs) := send_msg s m in cs :: send_msgs s1 ms'
  end.

(* ---- application values <-> (ppid, user data): _data_channel_send / _data_channel_receive.
   A str is represented by its UTF-8 encoding (encode/decode is a trusted bijection on valid text). *)
Inductive appval := VStr (utf8 : bytes) | VBytes (b : bytes).

Definition encode_app (v : appval) : Z * bytes :=
  match v with
  | VStr [] => (WEBRTC_STRING_EMPTY, [0])
  | VStr u => (WEBRTC_STRING, u)
  | VBytes [] => (WEBRTC_BINARY_EMPTY, [0])
  | VBytes b => (WEBRTC_BINARY, b)
  end.

Definition decode_app (pp : Z) (d : bytes) : option appval :=
  if Z.eqb pp WEBRTC_STRING then Some (VStr d)
  else if Z.eqb pp WEBRTC_STRING_EMPTY then Some (VStr [])
  else if Z.eqb pp WEBRTC_BINARY then Some (VBytes d)
  else if Z.eqb pp WEBRTC_BINARY_EMPTY then Some (VBytes [])
  else None.

(* ---- glue: input (tsn0, [(sid ordered ppid data)...]) -> chunk lists *)
Definition sx_of_chunk (c : chunk) : sx :=
  L [A (tsn c); A (sid c); A (sseq c); of_b (unordered c); of_b (first c); of_b (last c); A (ppid c); of_zs (udata c)].

(* input: (tsn0, [(sid ordered ppid data)...], optional [(sid seq)...] = _outbound_stream_seq at the start) *)
Definition main (x : sx) : sx :=
  let ms := map (fun m => mkOut (sx_z (sx_nth m 0)) (sx_b (sx_nth m 1)) (sx_z (sx_nth m 2)) (sx_zs (sx_nth m 3)))
                (sx_l (sx_nth x 1)) in
  let seqs := map (fun p => (sx_z (sx_nth p 0), sx_z (sx_nth p 1))) (sx_l (sx_nth x 2)) in
  L (map (fun cs => L (map sx_of_chunk cs)) (send_msgs (mkS (sx_z (sx_nth x 0)) seqs) ms)).
