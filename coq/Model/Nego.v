(* Model of the offer/answer negotiation logic of aiortc (property C03).

   Layer 1: the pure helper functions of rtcpeerconnection.py 52-147, 183-193,
            259-272 on records (strings are lists of character codes, dict
            parameters are association lists with unique keys, a MIME type
            "a/b" is the pair (a, b)), get_capabilities (codecs/__init__.py
            124-152), setCodecPreferences (rtcrtptransceiver.py 101-120) and
            sdp.parse_h264_profile_level_id (sdp.py 30-106, 194-216).
   Layer 2: the transceiver / sctp / mid / BUNDLE / DTLS-role bookkeeping of
            addTrack, addTransceiver, createDataChannel, createOffer,
            createAnswer, setLocalDescription, setRemoteDescription and
            __validate_description on structured descriptions (no SDP text).

   Executable definitions only; no proofs here. *)
From Coq Require Import ZArith List Bool.
From AV Require Import Lib.Sx.
Import ListNotations.
Local Open Scope Z_scope.

(* ---- outcome of a call ---------------------------------------------------- *)
Inductive res (T : Type) : Type :=
| Ok (a : T)
| ValueErr          (* ValueError *)
| Crash             (* any other exception *)
| OutOfFuel.
Arguments Ok {T} a.
Arguments ValueErr {T}.
Arguments Crash {T}.
Arguments OutOfFuel {T}.

Definition bind {T U} (r : res T) (f : T -> res U) : res U :=
  match r with
  | Ok a => f a
  | ValueErr => ValueErr
  | Crash => Crash
  | OutOfFuel => OutOfFuel
  end.
Notation "x <- e ;; f" := (bind e (fun x => f)) (at level 61, e at next level, right associativity).
Notation "' p <- e ;; f" := (bind e (fun p => f)) (at level 61, p pattern, e at next level, right associativity).

(* ---- strings ---------------------------------------------------------------- *)
Definition str := list Z.

(* string constants below are written as lists of character codes *)

Fixpoint str_eqb (a b : str) : bool :=
  match a, b with
  | [], [] => true
  | x :: a', y :: b' => Z.eqb x y && str_eqb a' b'
  | _, _ => false
  end.

(* str.lower() on ASCII *)
Definition lower_c (c : Z) : Z := if Z.leb 65 c && Z.leb c 90 then c + 32 else c.
Definition lower (s : str) : str := map lower_c s.

Definition opt_eqb {T} (f : T -> T -> bool) (a b : option T) : bool :=
  match a, b with
  | None, None => true
  | Some x, Some y => f x y
  | _, _ => false
  end.

(* ---- codec parameters (a Python dict str -> int | str | None) ------------- *)
Inductive pval := PInt (z : Z) | PStr (s : str) | PNone.

Definition pval_eqb (a b : pval) : bool :=
  match a, b with
  | PInt x, PInt y => Z.eqb x y
  | PStr x, PStr y => str_eqb x y
  | PNone, PNone => true
  | _, _ => false
  end.

Definition params := list (str * pval).

Fixpoint pget (p : params) (k : str) : option pval :=
  match p with
  | [] => None
  | (k', v) :: p' => if str_eqb k k' then Some v else pget p' k
  end.

(* dict == dict (keys unique): same size and every item of a is in b *)
Definition params_eqb (a b : params) : bool :=
  Nat.eqb (length a) (length b) &&
  forallb (fun kv => match pget b (fst kv) with
                     | Some v => pval_eqb v (snd kv)
                     | None => false
                     end) a.

(* RTCRtcpFeedback(type, parameter) *)
Definition fb := (str * option str)%type.
Definition fb_eqb (a b : fb) : bool :=
  str_eqb (fst a) (fst b) && opt_eqb str_eqb (snd a) (snd b).

(* RTCRtpCodecParameters; mimeType = kind "/" name *)
Record codec := mkCodec {
  c_kind : str;
  c_name : str;
  c_clock : Z;
  c_channels : option Z;
  c_pt : Z;
  c_fb : list fb;
  c_params : params
}.

(* RTCRtpCodecCapability *)
Record cap := mkCap {
  k_kind : str;
  k_name : str;
  k_clock : Z;
  k_channels : option Z;
  k_params : params
}.

(* RTCRtpHeaderExtensionParameters *)
Record hdrext := mkExt { x_id : Z; x_uri : str }.

Definition s_rtx : str := [114; 116; 120] (* "rtx" *).
Definition s_video : str := [118; 105; 100; 101; 111] (* "video" *).
Definition s_h264 : str := [104; 50; 54; 52] (* "h264" *).
Definition key_apt : str := [97; 112; 116] (* "apt" *).
Definition key_pm : str := [112; 97; 99; 107; 101; 116; 105; 122; 97; 116; 105; 111; 110; 45; 109; 111; 100; 101] (* "packetization-mode" *).
Definition key_pl : str := [112; 114; 111; 102; 105; 108; 101; 45; 108; 101; 118; 101; 108; 45; 105; 100] (* "profile-level-id" *).

(* codecs.is_rtx: codec.name.lower() == "rtx" *)
Definition is_rtx (c : codec) : bool := str_eqb (lower (c_name c)) s_rtx.
Definition cap_is_rtx (k : cap) : bool := str_eqb (lower (k_name k)) s_rtx.

(* ---- int(str) for base 10 (ASCII subset of Python's grammar) ---------------- *)
Definition is_ws (c : Z) : bool := Z.eqb c 32 || (Z.leb 9 c && Z.leb c 13) || (Z.leb 28 c && Z.leb c 31).
Definition is_digit (c : Z) : bool := Z.leb 48 c && Z.leb c 57.

Fixpoint drop_ws (s : str) : str :=
  match s with
  | c :: s' => if is_ws c then drop_ws s' else s
  | [] => []
  end.
Definition strip (s : str) : str := rev (drop_ws (rev (drop_ws s))).

Fixpoint digits (s : str) (acc : Z) (prev_digit : bool) : option Z :=
  match s with
  | [] => if prev_digit then Some acc else None
  | c :: s' =>
      if is_digit c then digits s' (acc * 10 + (c - 48)) true
      else if Z.eqb c 95 && prev_digit then digits s' acc false
      else None
  end.

Definition py_int (s : str) : option Z :=
  match strip s with
  | 43 :: s' => digits s' 0 false
  | 45 :: s' => match digits s' 0 false with Some z => Some (- z) | None => None end
  | s' => digits s' 0 false
  end.

(* str(int) *)
Fixpoint dec_digits (fuel : nat) (z : Z) (acc : str) : option str :=
  match fuel with
  | O => None
  | S f => if Z.ltb z 10 then Some ((48 + z) :: acc)
           else dec_digits f (z / 10) ((48 + z mod 10) :: acc)
  end.
Definition dec_str (z : Z) : res str :=
  let a := Z.abs z in
  match dec_digits (S (Z.to_nat (Z.log2 a))) a [] with
  | Some s => Ok (if Z.ltb z 0 then 45 :: s else s)
  | None => OutOfFuel
  end.

(* ---- sdp.parse_h264_profile_level_id ---------------------------------------- *)
Definition hexval (c : Z) : option Z :=
  if is_digit c then Some (c - 48)
  else if Z.leb 97 c && Z.leb c 102 then Some (c - 87)
  else if Z.leb 65 c && Z.leb c 70 then Some (c - 55)
  else None.

(* BitPattern._bytemaskstring(c, s) for an 8-character pattern *)
Fixpoint bytemask (c : Z) (s : str) (shift : Z) : Z :=
  match s with
  | [] => 0
  | x :: s' => Z.lor (Z.shiftl (if Z.eqb x c then 1 else 0) shift) (bytemask c s' (shift - 1))
  end.
Definition pat_mask (p : str) : Z := Z.lnot (bytemask 120 p 7).
Definition pat_value (p : str) : Z := bytemask 49 p 7.
Definition pat_matches (p : str) (v : Z) : bool := Z.eqb (Z.land v (pat_mask p)) (pat_value p).

(* H264_PROFILE_PATTERNS: (profile_idc, pattern, H264Profile value) *)
Definition H264_PROFILE_PATTERNS : list (Z * str * Z) :=
  [ (66, [120; 49; 120; 120; 48; 48; 48; 48] (* "x1xx0000" *), 0); (77, [49; 120; 120; 120; 48; 48; 48; 48] (* "1xxx0000" *), 0); (88, [49; 49; 120; 120; 48; 48; 48; 48] (* "11xx0000" *), 0);
    (66, [120; 48; 120; 120; 48; 48; 48; 48] (* "x0xx0000" *), 1); (88, [49; 48; 120; 120; 48; 48; 48; 48] (* "10xx0000" *), 1); (77, [48; 120; 48; 120; 48; 48; 48; 48] (* "0x0x0000" *), 2);
    (100, [48; 48; 48; 48; 48; 48; 48; 48] (* "00000000" *), 4); (100, [48; 48; 48; 48; 49; 49; 48; 48] (* "00001100" *), 3); (244, [48; 48; 48; 48; 48; 48; 48; 48] (* "00000000" *), 5) ].

Definition H264_LEVELS : list Z := [10; 11; 12; 13; 20; 21; 22; 30; 31; 32; 40; 41; 42; 50; 51; 52].

Fixpoint find_profile (t : list (Z * str * Z)) (idc iop : Z) : option Z :=
  match t with
  | [] => None
  | (i, p, prof) :: t' => if Z.eqb i idc && pat_matches p iop then Some prof else find_profile t' idc iop
  end.

(* None = ValueError; the level is only validated (is_codec_compatible drops it) *)
Definition parse_h264_profile (s : str) : option Z :=
  match s with
  | a :: b :: c :: d :: e :: f :: _ =>
      match hexval a, hexval b, hexval c, hexval d, hexval e, hexval f with
      | Some a, Some b, Some c, Some d, Some e, Some f =>
          let level_idc := e * 16 + f in
          let profile_iop := c * 16 + d in
          let profile_idc := a * 16 + b in
          if Z.eqb level_idc 11 || existsb (Z.eqb level_idc) H264_LEVELS
          then find_profile H264_PROFILE_PATTERNS profile_idc profile_iop
          else None
      | _, _, _, _, _, _ => None
      end
  | _ => None
  end.

(* ---- is_codec_compatible (rtcpeerconnection.py 125-147) --------------------- *)
Definition mime_eqb (k1 n1 k2 n2 : str) : bool :=
  str_eqb (lower k1) (lower k2) && str_eqb (lower n1) (lower n2).

Definition packetization (c : codec) : res Z :=
  match pget (c_params c) key_pm with
  | None => Ok 0
  | Some (PInt z) => Ok z
  | Some (PStr s) => match py_int s with Some z => Ok z | None => ValueErr end
  | Some PNone => Crash                      (* int(None): TypeError *)
  end.

Definition profile_of (c : codec) : res Z :=
  s <- match pget (c_params c) key_pl with
       | None => Ok ([52; 50; 69; 48; 49; 70] (* "42E01F" *))
       | Some (PStr s) => Ok s
       | Some (PInt z) => dec_str z
       | Some PNone => Ok ([78; 111; 110; 101] (* "None" *))
       end ;;
  match parse_h264_profile s with
  | Some p => Ok p
  | None => ValueErr
  end.

Definition catch_value (r : res bool) : res bool :=
  match r with ValueErr => Ok false | x => x end.

Definition is_codec_compatible (a b : codec) : res bool :=
  if negb (mime_eqb (c_kind a) (c_name a) (c_kind b) (c_name b)) || negb (Z.eqb (c_clock a) (c_clock b))
  then Ok false
  else if str_eqb (lower (c_kind a)) s_video && str_eqb (lower (c_name a)) s_h264 then
    catch_value (
      pa <- packetization a ;;
      pb <- packetization b ;;
      if Z.eqb pa pb then
        fa <- profile_of a ;;
        fb <- profile_of b ;;
        Ok (Z.eqb fa fb)
      else Ok false)
  else Ok true.

(* ---- filter_preferred_codecs (52-79) ----------------------------------------- *)
Definition cap_matches (c : codec) (p : cap) : bool :=
  mime_eqb (c_kind c) (c_name c) (k_kind p) (k_name p) && params_eqb (c_params c) (k_params p).

Fixpoint find_pref (codecs : list codec) (p : cap) : option codec :=
  match codecs with
  | [] => None
  | c :: cs => if cap_matches c p then Some c else find_pref cs p
  end.

(* first rtx whose parameters["apt"] == pt; a missing key is a KeyError *)
Fixpoint find_rtx (rtxs : list codec) (pt : Z) : res (option codec) :=
  match rtxs with
  | [] => Ok None
  | r :: rs =>
      match pget (c_params r) key_apt with
      | None => Crash
      | Some v => if pval_eqb v (PInt pt) then Ok (Some r) else find_rtx rs pt
      end
  end.

Definition opt_list {T} (o : option T) : list T := match o with Some x => [x] | None => [] end.

Fixpoint fpc_loop (codecs rtxs : list codec) (rtx_enabled : bool) (prefs : list cap) : res (list codec) :=
  match prefs with
  | [] => Ok []
  | p :: ps =>
      if cap_is_rtx p then fpc_loop codecs rtxs rtx_enabled ps
      else match find_pref codecs p with
           | None => fpc_loop codecs rtxs rtx_enabled ps
           | Some c =>
               r <- (if rtx_enabled then find_rtx rtxs (c_pt c) else Ok None) ;;
               rest <- fpc_loop codecs rtxs rtx_enabled ps ;;
               Ok (c :: opt_list r ++ rest)
           end
  end.

Definition filter_preferred_codecs (codecs : list codec) (prefs : list cap) : res (list codec) :=
  match prefs with
  | [] => Ok codecs
  | _ => fpc_loop codecs (filter is_rtx codecs) (existsb cap_is_rtx prefs) prefs
  end.

(* ---- find_common_codecs (82-110) ----------------------------------------------- *)
Definition dynamic_pt (pt : Z) : bool := Z.leb 96 pt && Z.ltb pt 128.

Definition adapt (l c : codec) : codec :=
  mkCodec (c_kind l) (c_name l) (c_clock l) (c_channels l)
          (if dynamic_pt (c_pt c) then c_pt c else c_pt l)
          (filter (fun x => existsb (fb_eqb x) (c_fb c)) (c_fb l))
          (c_params l).

Fixpoint first_compat (local : list codec) (c : codec) : res (option codec) :=
  match local with
  | [] => Ok None
  | l :: ls =>
      b <- is_codec_compatible l c ;;
      if b then Ok (Some l) else first_compat ls c
  end.

(* common_base: dict payloadType -> codec, newest binding first *)
Fixpoint base_get (d : list (Z * codec)) (pt : Z) : option codec :=
  match d with
  | [] => None
  | (k, v) :: d' => if Z.eqb pt k then Some v else base_get d' pt
  end.

Fixpoint fcc_loop (local remote : list codec) (base : list (Z * codec)) : res (list codec) :=
  match remote with
  | [] => Ok []
  | c :: rs =>
      if is_rtx c then
        match pget (c_params c) key_apt with
        | Some (PInt apt) =>
            match base_get base apt with
            | Some b =>
                rest <- fcc_loop local rs base ;;
                Ok (if Z.eqb (c_clock c) (c_clock b) then c :: rest else rest)
            | None => fcc_loop local rs base
            end
        | _ => fcc_loop local rs base
        end
      else
        o <- first_compat local c ;;
        match o with
        | Some l =>
            let x := adapt l c in
            rest <- fcc_loop local rs ((c_pt x, x) :: base) ;;
            Ok (x :: rest)
        | None => fcc_loop local rs base
        end
  end.

Definition find_common_codecs (local remote : list codec) : res (list codec) :=
  fcc_loop local remote [].

(* ---- find_common_header_extensions (113-122) ----------------------------------- *)
Definition find_common_header_extensions (local remote : list hdrext) : list hdrext :=
  flat_map (fun rx => map (fun _ => rx) (filter (fun lx => str_eqb (x_uri lx) (x_uri rx)) local)) remote.

(* ---- directions (sdp.DIRECTIONS, 259-272) ---------------------------------------- *)
Inductive dir := Inactive | SendOnly | RecvOnly | SendRecv.
Definition DIRECTIONS : list dir := [Inactive; SendOnly; RecvOnly; SendRecv].
Definition dir_name (d : dir) : str :=
  match d with
  | Inactive => [105; 110; 97; 99; 116; 105; 118; 101] (* "inactive" *) | SendOnly => [115; 101; 110; 100; 111; 110; 108; 121] (* "sendonly" *)
  | RecvOnly => [114; 101; 99; 118; 111; 110; 108; 121] (* "recvonly" *) | SendRecv => [115; 101; 110; 100; 114; 101; 99; 118] (* "sendrecv" *)
  end.
Definition dir_index (d : dir) : Z :=
  match d with Inactive => 0 | SendOnly => 1 | RecvOnly => 2 | SendRecv => 3 end.
Definition dir_of_index (z : Z) : option dir :=
  if Z.ltb z 0 then None else nth_error DIRECTIONS (Z.to_nat z).

(* DIRECTIONS.index(None) raises ValueError *)
Definition dir_op (f : Z -> Z -> Z) (a b : option dir) : res dir :=
  match a, b with
  | Some x, Some y =>
      match dir_of_index (f (dir_index x) (dir_index y)) with
      | Some d => Ok d
      | None => Crash
      end
  | _, _ => ValueErr
  end.
Definition and_direction := dir_op Z.land.
Definition or_direction := dir_op Z.lor.
Definition reverse_direction (d : dir) : dir :=
  match d with SendOnly => RecvOnly | RecvOnly => SendOnly | x => x end.

(* ---- allocate_mid (183-193): mids are the decimal strings of naturals ------------ *)
Fixpoint alloc_from (fuel : nat) (i : Z) (mids : list Z) : res Z :=
  match fuel with
  | O => OutOfFuel
  | S f => if existsb (Z.eqb i) mids then alloc_from f (i + 1) mids else Ok i
  end.
Definition allocate_mid (mids : list Z) : res Z := alloc_from (S (length mids)) 0 mids.

(* ---- capability tables (codecs.CODECS / HEADER_EXTENSIONS) ------------------------ *)
Record tables := mkTables {
  codecs_audio : list codec;
  codecs_video : list codec;
  exts_audio : list hdrext;
  exts_video : list hdrext
}.
(* kinds: 0 = audio, 1 = video, 2 = application *)
Definition CODECS (T : tables) (kind : Z) : list codec := if Z.eqb kind 0 then codecs_audio T else codecs_video T.
Definition HEADER_EXTENSIONS (T : tables) (kind : Z) : list hdrext := if Z.eqb kind 0 then exts_audio T else exts_video T.

(* codecs.get_capabilities(kind).codecs *)
Fixpoint caps_of (cs : list codec) (rtx_added : bool) : list cap :=
  match cs with
  | [] => []
  | c :: cs' =>
      if negb (is_rtx c) then mkCap (c_kind c) (c_name c) (c_clock c) (c_channels c) (c_params c) :: caps_of cs' rtx_added
      else if negb rtx_added then mkCap (c_kind c) (c_name c) (c_clock c) None [] :: caps_of cs' true
      else caps_of cs' rtx_added
  end.
Definition get_capabilities (T : tables) (kind : Z) : list cap := caps_of (CODECS T kind) false.

(* dataclass equality of capabilities: exact strings *)
Definition cap_eqb (a b : cap) : bool :=
  str_eqb (k_kind a) (k_kind b) && str_eqb (k_name a) (k_name b) && Z.eqb (k_clock a) (k_clock b) &&
  opt_eqb Z.eqb (k_channels a) (k_channels b) && params_eqb (k_params a) (k_params b).

(* RTCRtpTransceiver.setCodecPreferences: validate, keep the last occurrence of duplicates *)
Fixpoint prefs_unique (capabilities : list cap) (rev_codecs : list cap) (unique : list cap) : res (list cap) :=
  match rev_codecs with
  | [] => Ok unique
  | c :: cs =>
      if negb (existsb (cap_eqb c) capabilities) then ValueErr
      else prefs_unique capabilities cs (if existsb (cap_eqb c) unique then unique else c :: unique)
  end.
Definition set_codec_preferences (T : tables) (kind : Z) (codecs : list cap) : res (list cap) :=
  prefs_unique (get_capabilities T kind) (rev codecs) [].

(* =========================================================================== *)
(* Layer 2: peer-connection bookkeeping                                         *)
(* =========================================================================== *)
Inductive role := RAuto | RClient | RServer.
Inductive sigstate := Stable | HaveLocalOffer | HaveRemoteOffer | Closed.

(* one RTCDtlsTransport with its RTCIceTransport *)
Record transport := mkTransport {
  tr_id : Z;
  tr_role : role;                (* dtlsTransport._role *)
  tr_role_set : bool;            (* iceTransport._role_set *)
  tr_controlling : bool;         (* iceTransport._connection.ice_controlling *)
  tr_live : bool                 (* still member of pc.__dtlsTransports / __iceTransports *)
}.

Record transceiver := mkTransceiver {
  t_kind : Z;
  t_direction : dir;
  t_mid : option Z;
  t_mline : option nat;
  t_offerDirection : option dir;
  t_currentDirection : option dir;
  t_preferred : list cap;
  t_codecs : list codec;
  t_exts : list hdrext;
  t_hastrack : bool;
  t_bundled : bool;
  t_transport : Z
}.

Record sctp := mkSctp {
  s_mid : option Z;
  s_bundled : bool;
  s_transport : Z
}.

Record media := mkMedia {
  m_kind : Z;
  m_mid : Z;
  m_dir : option dir;            (* None for application sections *)
  m_codecs : list codec;
  m_exts : list hdrext;
  m_role : role                  (* a=setup: actpass / active / passive *)
}.

(* description type: 0 = offer, 1 = answer *)
Record desc := mkDesc { d_type : Z; d_media : list media; d_bundle : list Z }.

(* bundle policy: 0 = balanced, 1 = max-compat, 2 = max-bundle *)
Record pc := mkPc {
  p_policy : Z;
  p_trs : list transceiver;
  p_sctp : option sctp;
  p_sctp_mline : option nat;
  p_seen : list Z;
  p_state : sigstate;
  p_transports : list transport;
  p_next : Z;
  p_cur_local : option desc;
  p_cur_remote : option desc;
  p_pend_local : option desc;
  p_pend_remote : option desc
}.

Definition init_pc (policy : Z) : pc :=
  mkPc policy [] None None [] Stable [] 0 None None None None.

Definition set_trs (p : pc) (l : list transceiver) : pc :=
  mkPc (p_policy p) l (p_sctp p) (p_sctp_mline p) (p_seen p) (p_state p) (p_transports p) (p_next p)
       (p_cur_local p) (p_cur_remote p) (p_pend_local p) (p_pend_remote p).
Definition set_sctp (p : pc) (s : option sctp) : pc :=
  mkPc (p_policy p) (p_trs p) s (p_sctp_mline p) (p_seen p) (p_state p) (p_transports p) (p_next p)
       (p_cur_local p) (p_cur_remote p) (p_pend_local p) (p_pend_remote p).
Definition set_sctp_mline (p : pc) (i : option nat) : pc :=
  mkPc (p_policy p) (p_trs p) (p_sctp p) i (p_seen p) (p_state p) (p_transports p) (p_next p)
       (p_cur_local p) (p_cur_remote p) (p_pend_local p) (p_pend_remote p).
Definition set_seen (p : pc) (l : list Z) : pc :=
  mkPc (p_policy p) (p_trs p) (p_sctp p) (p_sctp_mline p) l (p_state p) (p_transports p) (p_next p)
       (p_cur_local p) (p_cur_remote p) (p_pend_local p) (p_pend_remote p).
Definition set_state (p : pc) (s : sigstate) : pc :=
  mkPc (p_policy p) (p_trs p) (p_sctp p) (p_sctp_mline p) (p_seen p) s (p_transports p) (p_next p)
       (p_cur_local p) (p_cur_remote p) (p_pend_local p) (p_pend_remote p).
Definition set_transports (p : pc) (l : list transport) : pc :=
  mkPc (p_policy p) (p_trs p) (p_sctp p) (p_sctp_mline p) (p_seen p) (p_state p) l (p_next p)
       (p_cur_local p) (p_cur_remote p) (p_pend_local p) (p_pend_remote p).
Definition set_local (p : pc) (cur pend : option desc) : pc :=
  mkPc (p_policy p) (p_trs p) (p_sctp p) (p_sctp_mline p) (p_seen p) (p_state p) (p_transports p) (p_next p)
       cur (p_cur_remote p) pend (p_pend_remote p).
Definition set_remote (p : pc) (cur pend : option desc) : pc :=
  mkPc (p_policy p) (p_trs p) (p_sctp p) (p_sctp_mline p) (p_seen p) (p_state p) (p_transports p) (p_next p)
       (p_cur_local p) cur (p_pend_local p) pend.

Definition local_description (p : pc) : option desc :=
  match p_pend_local p with Some d => Some d | None => p_cur_local p end.
Definition remote_description (p : pc) : option desc :=
  match p_pend_remote p with Some d => Some d | None => p_cur_remote p end.

Definition sadd (x : Z) (l : list Z) : list Z := if existsb (Z.eqb x) l then l else x :: l.

(* ---- generic list helpers ---- *)
Fixpoint find_idx {T} (f : T -> bool) (l : list T) : option nat :=
  match l with
  | [] => None
  | x :: l' => if f x then Some O else match find_idx f l' with Some n => Some (S n) | None => None end
  end.
Fixpoint upd {T} (n : nat) (f : T -> T) (l : list T) : list T :=
  match l, n with
  | [], _ => []
  | x :: l', O => f x :: l'
  | x :: l', S n' => x :: upd n' f l'
  end.

Definition mid_is (m : Z) (t : transceiver) : bool := opt_eqb Z.eqb (t_mid t) (Some m).
Definition mline_is (i : nat) (t : transceiver) : bool := opt_eqb Nat.eqb (t_mline t) (Some i).

(* ---- transports ---- *)
Definition tr_get (l : list transport) (id : Z) : option transport :=
  find (fun t => Z.eqb (tr_id t) id) l.
Definition tr_upd (l : list transport) (id : Z) (f : transport -> transport) : list transport :=
  map (fun t => if Z.eqb (tr_id t) id then f t else t) l.
Definition tr_set_role (r : role) (t : transport) : transport :=
  mkTransport (tr_id t) r (tr_role_set t) (tr_controlling t) (tr_live t).
Definition tr_set_ice (c : bool) (t : transport) : transport :=
  if tr_role_set t then t else mkTransport (tr_id t) (tr_role t) true c (tr_live t).
Definition tr_kill (t : transport) : transport :=
  mkTransport (tr_id t) (tr_role t) (tr_role_set t) (tr_controlling t) false.

(* __createDtlsTransport *)
Definition create_dtls (p : pc) : pc * Z :=
  let id := p_next p in
  (mkPc (p_policy p) (p_trs p) (p_sctp p) (p_sctp_mline p) (p_seen p) (p_state p)
        (p_transports p ++ [mkTransport id RAuto false false true]) (id + 1)
        (p_cur_local p) (p_cur_remote p) (p_pend_local p) (p_pend_remote p), id).

(* __createTransceiver (1173-1206) *)
Definition create_transceiver (p : pc) (direction : dir) (kind : Z) (hastrack : bool) : pc :=
  let shared : option Z :=
    if Z.eqb (p_policy p) 2 then
      match p_trs p with
      | t :: _ => Some (t_transport t)
      | [] => match p_sctp p with Some s => Some (s_transport s) | None => None end
      end
    else if Z.eqb (p_policy p) 0 then
      match find (fun t => Z.eqb (t_kind t) kind) (p_trs p) with
      | Some t => Some (t_transport t)
      | None => None
      end
    else None in
  let '(p1, id, bundled) :=
    match shared with
    | Some id => (p, id, true)
    | None => let '(p1, id) := create_dtls p in (p1, id, false)
    end in
  set_trs p1 (p_trs p1 ++ [mkTransceiver kind direction None None None None [] [] [] hastrack bundled id]).

(* __createSctpTransport (1155-1171) *)
Definition create_sctp (p : pc) : pc :=
  match (if Z.eqb (p_policy p) 2 then p_trs p else []) with
  | t :: _ => set_sctp p (Some (mkSctp None true (t_transport t)))
  | [] => let '(p1, id) := create_dtls p in set_sctp p1 (Some (mkSctp None false id))
  end.

Definition set_direction (d : dir) (t : transceiver) : transceiver :=
  mkTransceiver (t_kind t) d (t_mid t) (t_mline t) (t_offerDirection t) (t_currentDirection t)
                (t_preferred t) (t_codecs t) (t_exts t) (t_hastrack t) (t_bundled t) (t_transport t).
Definition set_track (t : transceiver) : transceiver :=
  mkTransceiver (t_kind t) (t_direction t) (t_mid t) (t_mline t) (t_offerDirection t) (t_currentDirection t)
                (t_preferred t) (t_codecs t) (t_exts t) true (t_bundled t) (t_transport t).
Definition set_mid (m : Z) (t : transceiver) : transceiver :=
  mkTransceiver (t_kind t) (t_direction t) (Some m) (t_mline t) (t_offerDirection t) (t_currentDirection t)
                (t_preferred t) (t_codecs t) (t_exts t) (t_hastrack t) (t_bundled t) (t_transport t).
Definition set_mline (i : nat) (t : transceiver) : transceiver :=
  mkTransceiver (t_kind t) (t_direction t) (t_mid t) (Some i) (t_offerDirection t) (t_currentDirection t)
                (t_preferred t) (t_codecs t) (t_exts t) (t_hastrack t) (t_bundled t) (t_transport t).
Definition set_offer_dir (d : dir) (t : transceiver) : transceiver :=
  mkTransceiver (t_kind t) (t_direction t) (t_mid t) (t_mline t) (Some d) (t_currentDirection t)
                (t_preferred t) (t_codecs t) (t_exts t) (t_hastrack t) (t_bundled t) (t_transport t).
Definition set_cur_dir (d : dir) (t : transceiver) : transceiver :=
  mkTransceiver (t_kind t) (t_direction t) (t_mid t) (t_mline t) (t_offerDirection t) (Some d)
                (t_preferred t) (t_codecs t) (t_exts t) (t_hastrack t) (t_bundled t) (t_transport t).
Definition set_prefs (l : list cap) (t : transceiver) : transceiver :=
  mkTransceiver (t_kind t) (t_direction t) (t_mid t) (t_mline t) (t_offerDirection t) (t_currentDirection t)
                l (t_codecs t) (t_exts t) (t_hastrack t) (t_bundled t) (t_transport t).
Definition set_negotiated (cs : list codec) (xs : list hdrext) (t : transceiver) : transceiver :=
  mkTransceiver (t_kind t) (t_direction t) (t_mid t) (t_mline t) (t_offerDirection t) (t_currentDirection t)
                (t_preferred t) cs xs (t_hastrack t) (t_bundled t) (t_transport t).
Definition set_bundled_transport (id : Z) (t : transceiver) : transceiver :=
  mkTransceiver (t_kind t) (t_direction t) (t_mid t) (t_mline t) (t_offerDirection t) (t_currentDirection t)
                (t_preferred t) (t_codecs t) (t_exts t) (t_hastrack t) true id.

Definition is_av (kind : Z) : bool := Z.eqb kind 0 || Z.eqb kind 1.

(* ---- application-facing configuration calls ---- *)
(* addTrack (456-481) with a fresh track of the given kind *)
Definition add_track (p : pc) (kind : Z) : res pc :=
  if negb (is_av kind) then Crash else                (* InternalError: invalid track kind *)
  match find_idx (fun t => Z.eqb (t_kind t) kind && negb (t_hastrack t)) (p_trs p) with
  | Some i =>
      match nth_error (p_trs p) i with
      | Some t =>
          d <- or_direction (Some (t_direction t)) (Some SendOnly) ;;
          Ok (set_trs p (upd i (fun t => set_direction d (set_track t)) (p_trs p)))
      | None => Crash
      end
  | None => Ok (create_transceiver p SendRecv kind true)
  end.

(* addTransceiver (483-511) *)
Definition add_transceiver (p : pc) (kind : Z) (d : dir) (hastrack : bool) : res pc :=
  if negb (is_av kind) then Crash else                (* InternalError: invalid track kind *)
  Ok (create_transceiver p d kind hastrack).

(* createDataChannel (604-634), only its effect on the sctp transport *)
Definition create_data_channel (p : pc) : res pc :=
  match p_sctp p with
  | Some _ => Ok p
  | None => Ok (create_sctp p)
  end.

(* transceiver.setCodecPreferences on the i-th transceiver *)
Definition pc_set_prefs (T : tables) (p : pc) (i : nat) (codecs : list cap) : res pc :=
  match nth_error (p_trs p) i with
  | None => Crash
  | Some t =>
      u <- set_codec_preferences T (t_kind t) codecs ;;
      Ok (set_trs p (upd i (set_prefs u) (p_trs p)))
  end.

(* transceiver.direction = d *)
Definition pc_set_direction (p : pc) (i : nat) (d : dir) : res pc :=
  match nth_error (p_trs p) i with
  | None => Crash
  | Some _ => Ok (set_trs p (upd i (set_direction d) (p_trs p)))
  end.

(* ---- media descriptions ---- *)
Definition media_for_transceiver (t : transceiver) (d : dir) (mid : Z) (r : role) : media :=
  mkMedia (t_kind t) mid (Some d) (t_codecs t) (t_exts t) r.
Definition media_for_sctp (mid : Z) (r : role) : media := mkMedia 2 mid None [] [] r.

Definition desc_media (d : option desc) : list media :=
  match d with Some x => d_media x | None => [] end.

(* ---- createOffer (636-745) ---- *)
Fixpoint offer_codecs (T : tables) (trs : list transceiver) : res (list transceiver) :=
  match trs with
  | [] => Ok []
  | t :: ts =>
      cs <- filter_preferred_codecs (CODECS T (t_kind t)) (t_preferred t) ;;
      ts' <- offer_codecs T ts ;;
      Ok (set_negotiated cs (HEADER_EXTENSIONS T (t_kind t)) t :: ts')
  end.

(* existing m-sections, in m-line order *)
Fixpoint offer_existing (ms : list media) (i : nat) (trs : list transceiver) (has_sctp : bool)
         (smline : option nat) : res (list transceiver * list media * option nat) :=
  match ms with
  | [] => Ok (trs, [], smline)
  | m :: ms' =>
      if is_av (m_kind m) then
        match find_idx (mid_is (m_mid m)) trs with
        | None => Crash                               (* None._set_mline_index *)
        | Some k =>
            let trs1 := upd k (set_mline i) trs in
            match nth_error trs1 k with
            | None => Crash
            | Some t =>
                '(trs2, out, sm) <- offer_existing ms' (S i) trs1 has_sctp smline ;;
                Ok (trs2, media_for_transceiver t (t_direction t) (m_mid m) RAuto :: out, sm)
            end
        end
      else if Z.eqb (m_kind m) 2 then
        if has_sctp then
          '(trs2, out, sm) <- offer_existing ms' (S i) trs has_sctp (Some i) ;;
          Ok (trs2, media_for_sctp (m_mid m) RAuto :: out, sm)
        else Crash                                    (* None.port *)
      else offer_existing ms' (S i) trs has_sctp smline
  end.

(* transceivers without a mid get the next m-lines and fresh mids *)
Fixpoint offer_new (trs : list transceiver) (next : nat) (mids : list Z)
  : res (list transceiver * list media * list Z) :=
  match trs with
  | [] => Ok ([], [], mids)
  | t :: ts =>
      match t_mid t with
      | Some _ =>
          '(ts', out, mids') <- offer_new ts next mids ;;
          Ok (t :: ts', out, mids')
      | None =>
          m <- allocate_mid mids ;;
          let t' := set_mline next t in
          '(ts', out, mids') <- offer_new ts (S next) (m :: mids) ;;
          Ok (t' :: ts', media_for_transceiver t' (t_direction t') m RAuto :: out, mids')
      end
  end.

Definition create_offer (T : tables) (p : pc) : res (pc * desc) :=
  if match p_state p with Closed => true | _ => false end then Crash else
  trs0 <- offer_codecs T (p_trs p) ;;
  let local_media := desc_media (local_description p) in
  let remote_media := desc_media (remote_description p) in
  let merged := local_media ++ skipn (length local_media) remote_media in
  '(trs1, out1, sm1) <- offer_existing merged O trs0 (match p_sctp p with Some _ => true | None => false end)
                                       (p_sctp_mline p) ;;
  '(trs2, out2, mids2) <- offer_new trs1 (length out1) (p_seen p) ;;
  '(out3, sm3) <-
     match p_sctp p with
     | Some s =>
         match s_mid s with
         | None => m <- allocate_mid mids2 ;;
                   Ok ([media_for_sctp m RAuto], Some (length out1 + length out2)%nat)
         | Some _ => Ok ([], sm1)
         end
     | None => Ok ([], sm1)
     end ;;
  let ms := out1 ++ out2 ++ out3 in
  Ok (set_sctp_mline (set_trs p trs2) sm3, mkDesc 0 ms (map m_mid ms)).

(* ---- __validate_description (1347-1412), structured part ---- *)
Definition sections (d : option desc) : list (Z * Z) :=
  map (fun m => (m_kind m, m_mid m)) (desc_media d).
Definition section_eqb (a b : Z * Z) : bool := Z.eqb (fst a) (fst b) && Z.eqb (snd a) (snd b).
Fixpoint sections_eqb (a b : list (Z * Z)) : bool :=
  match a, b with
  | [], [] => true
  | x :: a', y :: b' => section_eqb x y && sections_eqb a' b'
  | _, _ => false
  end.

Definition validate_description (p : pc) (d : desc) (is_local : bool) : res unit :=
  let st := p_state p in
  let state_ok :=
    if is_local then
      if Z.eqb (d_type d) 0 then match st with Stable | HaveLocalOffer => true | _ => false end
      else match st with HaveRemoteOffer => true | _ => false end
    else
      if Z.eqb (d_type d) 0 then match st with Stable | HaveRemoteOffer => true | _ => false end
      else match st with HaveLocalOffer => true | _ => false end in
  if negb state_ok then Crash                          (* InvalidStateError *)
  else if Z.eqb (d_type d) 1 && existsb (fun m => match m_role m with RAuto => true | _ => false end) (d_media d)
  then ValueErr
  else if Z.eqb (d_type d) 1 then
    match (if is_local then remote_description p else local_description p) with
    | None => Crash                                    (* None.media *)
    | Some o => if sections_eqb (sections (Some d)) (sections (Some o)) then Ok tt else ValueErr
    end
  else Ok tt.

(* ---- setLocalDescription (782-875) ---- *)
Fixpoint assign_mids (ms : list media) (i : nat) (p : pc) : res pc :=
  match ms with
  | [] => Ok p
  | m :: ms' =>
      let p1 := set_seen p (sadd (m_mid m) (p_seen p)) in
      if is_av (m_kind m) then
        match find_idx (mline_is i) (p_trs p1) with
        | None => Crash                                (* None._set_mid *)
        | Some k => assign_mids ms' (S i) (set_trs p1 (upd k (set_mid (m_mid m)) (p_trs p1)))
        end
      else if Z.eqb (m_kind m) 2 then
        match p_sctp p1 with
        | None => Crash
        | Some s => assign_mids ms' (S i) (set_sctp p1 (Some (mkSctp (Some (m_mid m)) (s_bundled s) (s_transport s))))
        end
      else assign_mids ms' (S i) p1
  end.

Fixpoint local_roles (ms : list media) (i : nat) (p : pc) : res pc :=
  match ms with
  | [] => Ok p
  | m :: ms' =>
      if is_av (m_kind m) then
        match find (mline_is i) (p_trs p) with
        | None => Crash
        | Some t => local_roles ms' (S i) (set_transports p (tr_upd (p_transports p) (t_transport t) (tr_set_role (m_role m))))
        end
      else if Z.eqb (m_kind m) 2 then
        match p_sctp p with
        | None => Crash
        | Some s => local_roles ms' (S i) (set_transports p (tr_upd (p_transports p) (s_transport s) (tr_set_role (m_role m))))
        end
      else local_roles ms' (S i) p
  end.

(* fixed = true: the repaired loop (only transceivers that took part in the offer);
   fixed = false: the code as found (and_direction with _offerDirection = None raises) *)
Fixpoint local_directions (fixed : bool) (trs : list transceiver) : res (list transceiver) :=
  match trs with
  | [] => Ok []
  | t :: ts =>
      t' <- (match t_offerDirection t with
             | None => if fixed then Ok t
                       else d <- and_direction (Some (t_direction t)) None ;; Ok (set_cur_dir d t)
             | Some o => d <- and_direction (Some (t_direction t)) (Some o) ;; Ok (set_cur_dir d t)
             end) ;;
      ts' <- local_directions fixed ts ;;
      Ok (t' :: ts')
  end.

Definition set_local_description (fixed : bool) (p : pc) (d : desc) : res pc :=
  if match p_state p with Closed => true | _ => false end then Crash else
  _ <- validate_description p d true ;;
  let p1 := set_state p (if Z.eqb (d_type d) 0 then HaveLocalOffer else Stable) in
  p2 <- assign_mids (d_media d) O p1 ;;
  let p3 := if Z.eqb (d_type d) 0
            then set_transports p2 (map (fun t => if tr_live t then tr_set_ice true t else t) (p_transports p2))
            else p2 in
  p4 <- (if Z.eqb (d_type d) 1 then local_roles (d_media d) O p3 else Ok p3) ;;
  p5 <- (if Z.eqb (d_type d) 1 then trs <- local_directions fixed (p_trs p4) ;; Ok (set_trs p4 trs) else Ok p4) ;;
  Ok (if Z.eqb (d_type d) 1 then set_local p5 (Some d) None else set_local p5 (p_cur_local p5) (Some d)).

(* ---- setRemoteDescription (877-1070) ---- *)
Definition remote_transport_roles (ty : Z) (m : media) (id : Z) (l : list transport) : list transport :=
  let l1 := if Z.eqb ty 0 then tr_upd l id (tr_set_ice false) else l in   (* iceLite = False *)
  let l2 := if Z.eqb ty 0 && match m_role m with RClient => true | _ => false end
            then tr_upd l1 id (tr_set_role RServer) else l1 in
  if Z.eqb ty 1
  then tr_upd l2 id (tr_set_role (match m_role m with RClient => RServer | _ => RClient end))
  else l2.

(* 904-916: the first transceiver of that kind whose mid is None or the section's mid *)
Definition media_match (m : media) (t : transceiver) : bool :=
  Z.eqb (t_kind t) (m_kind m) && match t_mid t with None => true | Some x => Z.eqb x (m_mid m) end.

Definition locate (m : media) (p0 : pc) : pc * nat :=
  match find_idx (media_match m) (p_trs p0) with
  | Some k => (p0, k)
  | None => (create_transceiver p0 RecvOnly (m_kind m) false, length (p_trs p0))
  end.

(* one audio / video section (903-962, 985-1001) *)
Definition remote_av (T : tables) (ty : Z) (m : media) (i : nat) (p0 : pc) : res pc :=
  let '(p1, k) := locate m p0 in
  match nth_error (p_trs p1) k with
  | None => Crash
  | Some t0 =>
      let t1 := match t_mid t0 with None => set_mline i (set_mid (m_mid m) t0) | Some _ => t0 end in
      c0 <- find_common_codecs (CODECS T (m_kind m)) (m_codecs m) ;;
      common <- filter_preferred_codecs c0 (t_preferred t1) ;;
      match common with
      | [] => Crash                              (* OperationError *)
      | _ =>
          match m_dir m with
          | None => Crash                        (* reverse_direction(None) is None; index fails later *)
          | Some md =>
              let t2 := set_negotiated common
                          (find_common_header_extensions (HEADER_EXTENSIONS T (m_kind m)) (m_exts m)) t1 in
              let d := reverse_direction md in
              let t3 := if Z.eqb ty 1 then set_cur_dir d t2 else set_offer_dir d t2 in
              let p2 := set_trs p1 (upd k (fun _ => t3) (p_trs p1)) in
              Ok (set_transports p2 (remote_transport_roles ty m (t_transport t3) (p_transports p2)))
          end
      end
  end.

(* the application section (964-983, 985-1001) *)
Definition remote_app (ty : Z) (m : media) (i : nat) (p0 : pc) : res pc :=
  let p1 := match p_sctp p0 with Some _ => p0 | None => create_sctp p0 end in
  match p_sctp p1 with
  | None => Crash
  | Some s =>
      let p2 := match s_mid s with
                | None => set_sctp_mline (set_sctp p1 (Some (mkSctp (Some (m_mid m)) (s_bundled s) (s_transport s)))) (Some i)
                | Some _ => p1
                end in
      Ok (set_transports p2 (remote_transport_roles ty m (s_transport s) (p_transports p2)))
  end.

Fixpoint remote_media (T : tables) (ty : Z) (ms : list media) (i : nat) (p : pc) : res pc :=
  match ms with
  | [] => Ok p
  | m :: ms' =>
      let p0 := set_seen p (sadd (m_mid m) (p_seen p)) in
      if is_av (m_kind m) then p' <- remote_av T ty m i p0 ;; remote_media T ty ms' (S i) p'
      else if Z.eqb (m_kind m) 2 then p' <- remote_app ty m i p0 ;; remote_media T ty ms' (S i) p'
      else remote_media T ty ms' (S i) p0
  end.

(* 1003-1043: move bundled media onto the transport of the first BUNDLE member.
   fixed = true: a slave is moved iff it is not yet on the primary transport (repaired code);
   fixed = false: a slave is moved iff its _bundled flag is unset (code as found: this can stop
   the primary transport itself, or leave a flagged slave behind on a stopped transport) *)
Definition set_bundled (t : transceiver) : transceiver :=
  mkTransceiver (t_kind t) (t_direction t) (t_mid t) (t_mline t) (t_offerDirection t) (t_currentDirection t)
                (t_preferred t) (t_codecs t) (t_exts t) (t_hastrack t) true (t_transport t).

Definition apply_bundle (fixed : bool) (items : list Z) (p : pc) : res pc :=
  match items with
  | [] => Ok p
  | primary :: slaves =>
      let pt1 := match find (mid_is primary) (p_trs p) with Some t => Some (t_transport t) | None => None end in
      let pt2 := match p_sctp p with
                 | Some s => if opt_eqb Z.eqb (s_mid s) (Some primary) then Some (s_transport s) else pt1
                 | None => pt1
                 end in
      let is_slave (m : option Z) := match m with Some x => existsb (Z.eqb x) slaves | None => false end in
      match pt2 with
      | None =>
          if existsb (fun t => is_slave (t_mid t)) (p_trs p) ||
             match p_sctp p with Some s => is_slave (s_mid s) | None => false end
          then Crash                                   (* setTransport(None): later AttributeError *)
          else Ok p
      | Some prim =>
          let must_move (bundled : bool) (tr : Z) :=
            if fixed then negb (Z.eqb tr prim) else negb bundled in
          let moved_t := filter (fun t => is_slave (t_mid t) && must_move (t_bundled t) (t_transport t)) (p_trs p) in
          let moved_s := match p_sctp p with
                         | Some s => is_slave (s_mid s) && must_move (s_bundled s) (s_transport s)
                         | None => false
                         end in
          let old := map t_transport moved_t ++
                     (if moved_s then match p_sctp p with Some s => [s_transport s] | None => [] end else []) in
          let trs' := map (fun t => if is_slave (t_mid t)
                                    then if must_move (t_bundled t) (t_transport t)
                                         then set_bundled_transport prim t
                                         else if fixed then set_bundled t else t
                                    else t)
                          (p_trs p) in
          let sctp' := match p_sctp p with
                       | Some s => if is_slave (s_mid s)
                                   then if moved_s then Some (mkSctp (s_mid s) true prim)
                                        else if fixed then Some (mkSctp (s_mid s) true (s_transport s)) else Some s
                                   else Some s
                       | None => None
                       end in
          let trp' := map (fun t => if existsb (Z.eqb (tr_id t)) old then tr_kill t else t) (p_transports p) in
          Ok (set_transports (set_sctp (set_trs p trs') sctp') trp')
      end
  end.

Definition set_remote_description (fixed : bool) (T : tables) (p : pc) (d : desc) : res pc :=
  _ <- validate_description p d false ;;
  p1 <- remote_media T (d_type d) (d_media d) O p ;;
  p2 <- apply_bundle fixed (d_bundle d) p1 ;;
  let p3 := set_state p2 (if Z.eqb (d_type d) 0 then HaveRemoteOffer else Stable) in
  Ok (if Z.eqb (d_type d) 1 then set_remote p3 (Some d) None else set_remote p3 (p_cur_remote p3) (Some d)).

(* ---- createAnswer (548-602) ---- *)
Fixpoint answer_media (p : pc) (ms : list media) : res (list media) :=
  match ms with
  | [] => Ok []
  | m :: ms' =>
      x <- (if is_av (m_kind m) then
              match find (mid_is (m_mid m)) (p_trs p) with
              | None => Crash
              | Some t =>
                  d <- and_direction (Some (t_direction t)) (t_offerDirection t) ;;
                  match t_mid t, tr_get (p_transports p) (t_transport t) with
                  | Some mid, Some tr =>
                      Ok (media_for_transceiver t d mid (match tr_role tr with RAuto => RClient | r => r end))
                  | _, _ => Crash
                  end
              end
            else
              match p_sctp p with
              | None => Crash
              | Some s =>
                  match s_mid s, tr_get (p_transports p) (s_transport s) with
                  | Some mid, Some tr => Ok (media_for_sctp mid (match tr_role tr with RAuto => RClient | r => r end))
                  | _, _ => Crash
                  end
              end) ;;
      rest <- answer_media p ms' ;;
      Ok (x :: rest)
  end.

Definition create_answer (p : pc) : res desc :=
  match p_state p with
  | HaveRemoteOffer =>
      match remote_description p with
      | None => Crash
      | Some o =>
          ms <- answer_media p (d_media o) ;;
          Ok (mkDesc 1 ms (map m_mid ms))
      end
  | _ => Crash
  end.

(* ---- one complete offer/answer exchange, a = offerer, b = answerer ---- *)
Record exchanged := mkExchanged { x_a : pc; x_b : pc; x_offer : desc; x_answer : desc }.

Definition exchange (fixed : bool) (T : tables) (a b : pc) : res exchanged :=
  '(a1, offer) <- create_offer T a ;;
  a2 <- set_local_description fixed a1 offer ;;
  b1 <- set_remote_description fixed T b offer ;;
  answer <- create_answer b1 ;;
  b2 <- set_local_description fixed b1 answer ;;
  a3 <- set_remote_description fixed T a2 answer ;;
  Ok (mkExchanged a3 b2 offer answer).

(* ---- configuration scripts ---- *)
Inductive op :=
| OpAddTrack (kind : Z)
| OpAddTransceiver (kind : Z) (d : dir) (hastrack : bool)
| OpDataChannel
| OpSetPrefs (i : nat) (prefs : list cap)
| OpSetDirection (i : nat) (d : dir).

Definition apply_op (T : tables) (p : pc) (o : op) : res pc :=
  match o with
  | OpAddTrack k => add_track p k
  | OpAddTransceiver k d h => add_transceiver p k d h
  | OpDataChannel => create_data_channel p
  | OpSetPrefs i prefs => pc_set_prefs T p i prefs
  | OpSetDirection i d => pc_set_direction p i d
  end.

Fixpoint apply_ops (T : tables) (p : pc) (ops : list op) : res pc :=
  match ops with
  | [] => Ok p
  | o :: os => p' <- apply_op T p o ;; apply_ops T p' os
  end.

(* a session: configuration calls on either side interleaved with complete
   exchanges in either direction *)
Inductive step :=
| StepA (o : op)
| StepB (o : op)
| NegotiateAB          (* a offers *)
| NegotiateBA.         (* b offers *)

Fixpoint run_session (fixed : bool) (T : tables) (a b : pc) (steps : list step) : res (pc * pc) :=
  match steps with
  | [] => Ok (a, b)
  | StepA o :: r => a' <- apply_op T a o ;; run_session fixed T a' b r
  | StepB o :: r => b' <- apply_op T b o ;; run_session fixed T a b' r
  | NegotiateAB :: r => x <- exchange fixed T a b ;; run_session fixed T (x_a x) (x_b x) r
  | NegotiateBA :: r => x <- exchange fixed T b a ;; run_session fixed T (x_b x) (x_a x) r
  end.

(* ---- table sanity: what the theorems about whole exchanges assume of CODECS /
        HEADER_EXTENSIONS; evaluated on the real tables by every check run ---- *)
Definition compat_row_ok (l : list codec) (i : nat) (c : codec) : bool :=
  forallb (fun jc => match is_codec_compatible (snd jc) c with
                     | Ok b => Bool.eqb b (Nat.eqb (fst jc) i)
                     | _ => false
                     end)
          (combine (seq 0 (length l)) l).

Fixpoint rtx_follow_ok (prev : option codec) (l : list codec) : bool :=
  match l with
  | [] => true
  | c :: l' =>
      (if is_rtx c then
         match prev, pget (c_params c) key_apt with
         | Some b, Some (PInt apt) => negb (is_rtx b) && Z.eqb apt (c_pt b) && Z.eqb (c_clock c) (c_clock b)
         | _, _ => false
         end
       else true) && rtx_follow_ok (Some c) l'
  end.

Fixpoint nodup_z (l : list Z) : bool :=
  match l with
  | [] => true
  | x :: l' => negb (existsb (Z.eqb x) l') && nodup_z l'
  end.
Fixpoint nodup_str (l : list str) : bool :=
  match l with
  | [] => true
  | x :: l' => negb (existsb (str_eqb x) l') && nodup_str l'
  end.

Definition kind_table_ok (kind : Z) (cs : list codec) (xs : list hdrext) : bool :=
  let nonrtx := filter (fun c => negb (is_rtx c)) cs in
  (* at least one real codec *)
  negb (Nat.eqb (length nonrtx) 0) &&
  (* is_codec_compatible restricted to the real codecs of the table is equality *)
  forallb (fun ic => compat_row_ok nonrtx (fst ic) (snd ic)) (combine (seq 0 (length nonrtx)) nonrtx) &&
  (* every RTX entry directly follows its base codec *)
  rtx_follow_ok None cs &&
  (* payload types are distinct *)
  nodup_z (map c_pt cs) &&
  (* what survives printing and parsing: audio has 1 or 2 channels, video none *)
  forallb (fun c => if Z.eqb kind 0
                    then opt_eqb Z.eqb (c_channels c) (Some 1) || opt_eqb Z.eqb (c_channels c) (Some 2)
                    else opt_eqb Z.eqb (c_channels c) None) cs &&
  (* distinct parameter keys (the association list is a dict) *)
  forallb (fun c => nodup_str (map fst (c_params c))) cs &&
  (* capabilities of distinct real codecs are distinguishable by preference matching *)
  forallb (fun ic => forallb (fun jc => Bool.eqb (cap_matches (snd ic)
                                          (mkCap (c_kind (snd jc)) (c_name (snd jc)) (c_clock (snd jc))
                                                 (c_channels (snd jc)) (c_params (snd jc))))
                                          (Nat.eqb (fst ic) (fst jc)))
                             (combine (seq 0 (length nonrtx)) nonrtx))
          (combine (seq 0 (length nonrtx)) nonrtx) &&
  (* header extensions: distinct uris and ids *)
  nodup_str (map x_uri xs) && nodup_z (map x_id xs).

Definition tables_ok (T : tables) : bool :=
  kind_table_ok 0 (codecs_audio T) (exts_audio T) && kind_table_ok 1 (codecs_video T) (exts_video T).

(* =========================================================================== *)
(* s-expression glue                                                             *)
(* =========================================================================== *)
Definition sx_str (x : sx) : str := sx_zs x.
Definition pval_of_sx (x : sx) : pval :=
  let t := sx_z (sx_nth x 0) in
  if Z.eqb t 0 then PInt (sx_z (sx_nth x 1))
  else if Z.eqb t 1 then PStr (sx_str (sx_nth x 1))
  else PNone.
Definition params_of_sx (x : sx) : params :=
  map (fun kv => (sx_str (sx_nth kv 0), pval_of_sx (sx_nth kv 1))) (sx_l x).
Definition fb_of_sx (x : sx) : fb := (sx_str (sx_nth x 0), sx_opt sx_str (sx_nth x 1)).
Definition codec_of_sx (x : sx) : codec :=
  mkCodec (sx_str (sx_nth x 0)) (sx_str (sx_nth x 1)) (sx_z (sx_nth x 2)) (sx_opt sx_z (sx_nth x 3))
          (sx_z (sx_nth x 4)) (map fb_of_sx (sx_l (sx_nth x 5))) (params_of_sx (sx_nth x 6)).
Definition cap_of_sx (x : sx) : cap :=
  mkCap (sx_str (sx_nth x 0)) (sx_str (sx_nth x 1)) (sx_z (sx_nth x 2)) (sx_opt sx_z (sx_nth x 3))
        (params_of_sx (sx_nth x 4)).
Definition ext_of_sx (x : sx) : hdrext := mkExt (sx_z (sx_nth x 0)) (sx_str (sx_nth x 1)).
Definition dir_of_sx (x : sx) : option dir := dir_of_index (sx_z x).
Definition tables_of_sx (x : sx) : tables :=
  mkTables (map codec_of_sx (sx_l (sx_nth x 0))) (map codec_of_sx (sx_l (sx_nth x 1)))
           (map ext_of_sx (sx_l (sx_nth x 2))) (map ext_of_sx (sx_l (sx_nth x 3))).

Definition sx_of_pval (v : pval) : sx :=
  match v with PInt z => L [A 0; A z] | PStr s => L [A 1; of_zs s] | PNone => L [A 2] end.
Definition sx_of_params (p : params) : sx := L (map (fun kv => L [of_zs (fst kv); sx_of_pval (snd kv)]) p).
Definition sx_of_fb (f : fb) : sx := L [of_zs (fst f); of_opt of_zs (snd f)].
Definition sx_of_codec (c : codec) : sx :=
  L [of_zs (c_kind c); of_zs (c_name c); A (c_clock c); of_opt A (c_channels c); A (c_pt c);
     L (map sx_of_fb (c_fb c)); sx_of_params (c_params c)].
Definition sx_of_cap (c : cap) : sx :=
  L [of_zs (k_kind c); of_zs (k_name c); A (k_clock c); of_opt A (k_channels c); sx_of_params (k_params c)].
Definition sx_of_ext (x : hdrext) : sx := L [A (x_id x); of_zs (x_uri x)].
Definition sx_of_dir (d : dir) : sx := A (dir_index d).
Definition sx_of_role (r : role) : sx := A (match r with RAuto => 0 | RClient => 1 | RServer => 2 end).
Definition sx_of_state (s : sigstate) : sx :=
  A (match s with Stable => 0 | HaveLocalOffer => 1 | HaveRemoteOffer => 2 | Closed => 3 end).
Definition sx_of_nat (n : nat) : sx := A (Z.of_nat n).

Definition sx_of_res {T} (f : T -> sx) (r : res T) : sx :=
  match r with
  | Ok a => L [A 0; f a]
  | ValueErr => L [A ERR_VALUE]
  | Crash => L [A ERR_CRASH]
  | OutOfFuel => L [A ERR_FUEL]
  end.

Definition sx_of_media (m : media) : sx :=
  L [A (m_kind m); A (m_mid m); of_opt sx_of_dir (m_dir m); L (map sx_of_codec (m_codecs m));
     L (map sx_of_ext (m_exts m)); sx_of_role (m_role m)].
Definition sx_of_desc (d : desc) : sx :=
  L [A (d_type d); L (map sx_of_media (d_media d)); of_zs (d_bundle d)].

Definition sx_of_transport (l : list transport) (id : Z) : sx :=
  match tr_get l id with
  | Some t => L [A id; sx_of_role (tr_role t); of_b (tr_role_set t); of_b (tr_controlling t); of_b (tr_live t)]
  | None => L [A id]
  end.
Definition sx_of_transceiver (l : list transport) (t : transceiver) : sx :=
  L [A (t_kind t); sx_of_dir (t_direction t); of_opt A (t_mid t); of_opt sx_of_nat (t_mline t);
     of_opt sx_of_dir (t_offerDirection t); of_opt sx_of_dir (t_currentDirection t);
     L (map sx_of_cap (t_preferred t)); L (map sx_of_codec (t_codecs t)); L (map sx_of_ext (t_exts t));
     of_b (t_hastrack t); of_b (t_bundled t); sx_of_transport l (t_transport t)].
Definition sx_of_pc (p : pc) : sx :=
  L [sx_of_state (p_state p);
     L (map (sx_of_transceiver (p_transports p)) (p_trs p));
     of_opt (fun s => L [of_opt A (s_mid s); of_b (s_bundled s); sx_of_transport (p_transports p) (s_transport s)]) (p_sctp p);
     of_opt sx_of_nat (p_sctp_mline p);
     of_zs (p_seen p);
     A (Z.of_nat (length (filter tr_live (p_transports p))))].

(* --- layer-2 script: a list of calls, each on side 0 (a) or 1 (b); the trace holds the
       snapshot of the touched side and the description for the create calls after every call --- *)
Definition op_of_sx (x : sx) : option op :=
  let t := sx_z (sx_nth x 0) in
  if Z.eqb t 0 then Some (OpAddTrack (sx_z (sx_nth x 1)))
  else if Z.eqb t 1 then
    match dir_of_sx (sx_nth x 2) with
    | Some d => Some (OpAddTransceiver (sx_z (sx_nth x 1)) d (sx_b (sx_nth x 3)))
    | None => None
    end
  else if Z.eqb t 2 then Some OpDataChannel
  else if Z.eqb t 3 then Some (OpSetPrefs (Z.to_nat (sx_z (sx_nth x 1))) (map cap_of_sx (sx_l (sx_nth x 2))))
  else if Z.eqb t 4 then
    match dir_of_sx (sx_nth x 2) with
    | Some d => Some (OpSetDirection (Z.to_nat (sx_z (sx_nth x 1))) d)
    | None => None
    end
  else None.

(* one negotiation traced call by call; stops at the first failing call *)
Definition trace_exchange (T : tables) (a b : pc) : list sx * option (pc * pc) :=
  match create_offer T a with
  | Ok (a1, offer) =>
      let e1 := L [A 0; sx_of_desc offer; sx_of_pc a1] in
      match set_local_description true a1 offer with
      | Ok a2 =>
          let e2 := L [A 0; sx_of_pc a2] in
          match set_remote_description true T b offer with
          | Ok b1 =>
              let e3 := L [A 0; sx_of_pc b1] in
              match create_answer b1 with
              | Ok answer =>
                  let e4 := L [A 0; sx_of_desc answer] in
                  match set_local_description true b1 answer with
                  | Ok b2 =>
                      let e5 := L [A 0; sx_of_pc b2] in
                      match set_remote_description true T a2 answer with
                      | Ok a3 => ([e1; e2; e3; e4; e5; L [A 0; sx_of_pc a3]], Some (a3, b2))
                      | r => ([e1; e2; e3; e4; e5; sx_of_res (fun _ => L []) r], None)
                      end
                  | r => ([e1; e2; e3; e4; sx_of_res (fun _ => L []) r], None)
                  end
              | r => ([e1; e2; e3; sx_of_res (fun _ => L []) r], None)
              end
          | r => ([e1; e2; sx_of_res (fun _ => L []) r], None)
          end
      | r => ([e1; sx_of_res (fun _ => L []) r], None)
      end
  | r => ([sx_of_res (fun _ => L []) r], None)
  end.

Fixpoint trace_session (T : tables) (a b : pc) (steps : list sx) : list sx :=
  match steps with
  | [] => []
  | s :: r =>
      let t := sx_z (sx_nth s 0) in
      if Z.eqb t 9 then
        (* negotiate; offerer = side given *)
        let side := sx_z (sx_nth s 1) in
        let '(tr, fin) := if Z.eqb side 0 then trace_exchange T a b else trace_exchange T b a in
        match fin with
        | Some (o', n') => L tr :: (if Z.eqb side 0 then trace_session T o' n' r else trace_session T n' o' r)
        | None => [L tr]
        end
      else
        let side := sx_z (sx_nth s 1) in
        match op_of_sx (sx_nth s 2) with
        | None => [L [A ERR_CRASH]]
        | Some o =>
            match apply_op T (if Z.eqb side 0 then a else b) o with
            | Ok p' => L [A 0; sx_of_pc p'] ::
                       (if Z.eqb side 0 then trace_session T p' b r else trace_session T a p' r)
            | e => [sx_of_res (fun _ => L []) e]
            end
        end
  end.

(* constants cross-checked against the implementation on every run *)
Definition constants_sx : sx :=
  L [L (map (fun d => of_zs (dir_name d)) DIRECTIONS);
     L (map (fun e => match e with (i, p, prof) => L [A i; A (pat_mask p); A (pat_value p); A prof] end)
            H264_PROFILE_PATTERNS);
     of_zs H264_LEVELS].

(* input: (tag payload...)
   0 codecs prefs                 -> filter_preferred_codecs
   1 local remote                 -> find_common_codecs
   2 local remote                 -> find_common_header_extensions
   3 a b                          -> is_codec_compatible
   4 a b                          -> (and_direction, or_direction, reverse a) ; -1 encodes None
   5 mids                         -> allocate_mid
   6 tables kind codecs           -> setCodecPreferences
   7                              -> constants
   8 tables                       -> tables_ok and get_capabilities
   10 tables policy_a policy_b steps -> traced session *)
Definition main (x : sx) : sx :=
  let t := sx_z (sx_nth x 0) in
  if Z.eqb t 0 then
    sx_of_res (fun l => L (map sx_of_codec l))
      (filter_preferred_codecs (map codec_of_sx (sx_l (sx_nth x 1))) (map cap_of_sx (sx_l (sx_nth x 2))))
  else if Z.eqb t 1 then
    sx_of_res (fun l => L (map sx_of_codec l))
      (find_common_codecs (map codec_of_sx (sx_l (sx_nth x 1))) (map codec_of_sx (sx_l (sx_nth x 2))))
  else if Z.eqb t 2 then
    L [A 0; L (map sx_of_ext (find_common_header_extensions (map ext_of_sx (sx_l (sx_nth x 1)))
                                                             (map ext_of_sx (sx_l (sx_nth x 2)))))]
  else if Z.eqb t 3 then
    sx_of_res of_b (is_codec_compatible (codec_of_sx (sx_nth x 1)) (codec_of_sx (sx_nth x 2)))
  else if Z.eqb t 4 then
    let a := dir_of_sx (sx_nth x 1) in
    let b := dir_of_sx (sx_nth x 2) in
    L [sx_of_res sx_of_dir (and_direction a b); sx_of_res sx_of_dir (or_direction a b);
       of_opt sx_of_dir (option_map reverse_direction a)]
  else if Z.eqb t 5 then sx_of_res A (allocate_mid (sx_zs (sx_nth x 1)))
  else if Z.eqb t 6 then
    sx_of_res (fun l => L (map sx_of_cap l))
      (set_codec_preferences (tables_of_sx (sx_nth x 1)) (sx_z (sx_nth x 2)) (map cap_of_sx (sx_l (sx_nth x 3))))
  else if Z.eqb t 7 then constants_sx
  else if Z.eqb t 8 then
    let T := tables_of_sx (sx_nth x 1) in
    L [of_b (tables_ok T); L (map sx_of_cap (get_capabilities T 0)); L (map sx_of_cap (get_capabilities T 1))]
  else
    let T := tables_of_sx (sx_nth x 1) in
    L (trace_session T (init_pc (sx_z (sx_nth x 2))) (init_pc (sx_z (sx_nth x 3))) (sx_l (sx_nth x 4))).
