(* Sender side of RTCSctpTransport (after the repairs): _send, _transmit,
   _receive_sack_chunk, _t3_expired, _maybe_abandon / _abandon_chunk,
   _update_advanced_peer_ack_point, flight-size accounting and the T3 timer flag.
   Definitions only.

   Loops that mutate other queue positions while iterating (_maybe_abandon marks
   sibling fragments before and after the current chunk) are written over a zipper
   (processed chunks reversed, current chunk, remaining chunks): same semantics,
   structural recursion.  RTO arithmetic is not modelled: timer expiry is an input.
   Time is an integer (the harness uses a virtual clock). *)
From Coq Require Import ZArith List Bool.
From AV Require Import Lib.Sx Lib.Bytes Gen.Utils Gen.SctpConst.
Import ListNotations.
Local Open Scope Z_scope.

Record sc := mkSc {
  c_tsn : Z; c_sid : Z; c_sseq : Z;
  c_unord : bool; c_first : bool; c_last : bool;
  c_book : Z;                (* _book_size = len(user_data) *)
  c_acked : bool; c_abandoned : bool; c_retx : bool;
  c_misses : Z; c_sent_count : Z;
  c_maxrt : option Z;        (* _max_retransmits *)
  c_expiry : option Z        (* _expiry *)
}.

Definition set_flags (c : sc) (acked abandoned retx : bool) (misses cnt : Z) : sc :=
  mkSc (c_tsn c) (c_sid c) (c_sseq c) (c_unord c) (c_first c) (c_last c) (c_book c)
       acked abandoned retx misses cnt (c_maxrt c) (c_expiry c).

Record tx := mkTx {
  cwnd : Z; ssthresh : Z; flight : Z;
  fr_exit : option Z;               (* _fast_recovery_exit *)
  fr_transmit : bool;               (* _fast_recovery_transmit *)
  fwd_chunk : option (Z * list (Z * Z));   (* _forward_tsn_chunk *)
  fwd_streams : option (list (Z * Z));     (* _forward_tsn_streams *)
  last_sacked : Z; adv_ack : Z;
  outq : list sc; sentq : list sc;
  pba : Z;                          (* _partial_bytes_acked *)
  t3 : bool;                        (* T3 handle armed *)
  pending_tx : bool                 (* a deferred _transmit task is scheduled *)
}.

Inductive out :=
| OData (tsn : Z) (count : Z)       (* a DATA chunk handed to _send_chunk, with its _sent_count *)
| OFwd (cum : Z) (strs : list (Z * Z))
| OSchedTransmit.

Definition MTU : Z := USERDATA_MAX_LENGTH.

Definition with_q (s : tx) (fl : Z) (oq sq : list sc) : tx :=
  mkTx (cwnd s) (ssthresh s) fl (fr_exit s) (fr_transmit s) (fwd_chunk s) (fwd_streams s)
       (last_sacked s) (adv_ack s) oq sq (pba s) (t3 s) (pending_tx s).

Definition dec (fl : Z) (c : sc) : Z := Z.max 0 (fl - c_book c).   (* _flight_size_decrease *)

(* ---- _abandon_chunk / _maybe_abandon over a zipper ------------------------------ *)
Definition abandon_chunk (fl : Z) (c : sc) (sibling : bool) : Z * sc :=
  let fl' := if sibling && negb (c_abandoned c) && negb (c_acked c) && negb (c_retx c) then dec fl c else fl in
  (fl', set_flags c (c_acked c) true false (c_misses c) (c_sent_count c)).

(* backwards from the chunk before the current one, up to and including the B fragment *)
Fixpoint mark_back (fl : Z) (pre : list sc) : Z * list sc :=
  match pre with
  | [] => (fl, [])
  | c :: pre' =>
      let '(fl1, c1) := abandon_chunk fl c true in
      if c_first c then (fl1, c1 :: pre')
      else let '(fl2, pre2) := mark_back fl1 pre' in (fl2, c1 :: pre2)
  end.

(* forwards over the chunks after the current one; returns whether the E fragment was found *)
Fixpoint mark_fwd (fl : Z) (post : list sc) : Z * list sc * bool :=
  match post with
  | [] => (fl, [], false)
  | c :: post' =>
      let '(fl1, c1) := abandon_chunk fl c true in
      if c_last c then (fl1, c1 :: post', true)
      else let '(fl2, post2, found) := mark_fwd fl1 post' in (fl2, c1 :: post2, found)
  end.

(* the for-else branch: pull the unsent fragments of the message out of the outbound queue *)
Fixpoint pull_unsent (oq : list sc) : list sc * list sc :=   (* (moved, remaining) *)
  match oq with
  | [] => ([], [])
  | c :: oq' =>
      let c1 := snd (abandon_chunk 0 c false) in
      if c_last c then ([c1], oq')
      else let '(mv, rest) := pull_unsent oq' in (c1 :: mv, rest)
  end.

Definition should_abandon (c : sc) (now : Z) : bool :=
  match c_maxrt c with Some m => m <? c_sent_count c | None => false end ||
  match c_expiry c with Some e => e <? now | None => false end.

(* zipper: pre (reversed), cur, post.  Returns (abandoned?, flight, pre, cur, post, outq) *)
Definition maybe_abandon (fl : Z) (pre : list sc) (cur : sc) (post oq : list sc) (now : Z)
  : bool * Z * list sc * sc * list sc * list sc :=
  if c_abandoned cur then (true, fl, pre, cur, post, oq)
  else if negb (should_abandon cur now) then (false, fl, pre, cur, post, oq)
  else
    let '(fl0, cur1) := abandon_chunk fl cur false in
    let '(fl1, pre1) := if c_first cur then (fl0, pre) else mark_back fl0 pre in
    if c_last cur then (true, fl1, pre1, cur1, post, oq)
    else
      let '(fl2, post2, found) := mark_fwd fl1 post in
      if found then (true, fl2, pre1, cur1, post2, oq)
      else let '(mv, rest) := pull_unsent oq in (true, fl2, pre1, cur1, post2 ++ mv, rest).

(* ---- _update_advanced_peer_ack_point -------------------------------------------- *)
Fixpoint sset (l : list (Z * Z)) (k v : Z) : list (Z * Z) :=
  match l with
  | [] => [(k, v)]
  | (k', w) :: l' => if Z.eqb k k' then (k', v) :: l' else (k', w) :: sset l' k v
  end.

Fixpoint pop_abandoned (sq : list sc) (adv : Z) (strs : option (list (Z * Z))) : list sc * Z * option (list (Z * Z)) :=
  match sq with
  | c :: sq' =>
      if c_abandoned c then
        let l := match strs with Some l => l | None => [] end in
        pop_abandoned sq' (c_tsn c) (Some (if c_unord c then l else sset l (c_sid c) (c_sseq c)))
      else (sq, adv, strs)
  | [] => ([], adv, strs)
  end.

Definition update_adv (s : tx) : tx :=
  let '(adv0, strs0) := if uint32_gte (last_sacked s) (adv_ack s) then (last_sacked s, None)
                        else (adv_ack s, fwd_streams s) in
  let '(sq, adv, strs) := pop_abandoned (sentq s) adv0 strs0 in
  mkTx (cwnd s) (ssthresh s) (flight s) (fr_exit s) (fr_transmit s)
       (match strs with Some l => Some (adv, l) | None => fwd_chunk s end) strs
       (last_sacked s) adv (outq s) sq (pba s) (t3 s) (pending_tx s).

(* ---- _transmit -------------------------------------------------------------------- *)
(* the retransmission loop; `stop` = the early `return` *)
Fixpoint retx_loop (sq : list sc) (fl cw : Z) (frt : bool) (earliest : bool) (t3r : bool)
  : list sc * Z * bool * bool * bool * list out :=     (* sq, flight, frt, t3 restarted, stop, outs *)
  match sq with
  | [] => ([], fl, frt, t3r, false, [])
  | c :: sq' =>
      if c_retx c then
        if negb frt && (cw <=? fl) then (sq, fl, frt, t3r, true, [])
        else
          let c1 := set_flags c false (c_abandoned c) false 0 (c_sent_count c + 1) in
          let '(sq2, fl2, frt2, t3r2, stop, outs) := retx_loop sq' (fl + c_book c) cw false false (t3r || earliest) in
          (c1 :: sq2, fl2, frt2, t3r2, stop, OData (c_tsn c) (c_sent_count c + 1) :: outs)
      else
        let '(sq2, fl2, frt2, t3r2, stop, outs) := retx_loop sq' fl cw frt false t3r in
        (c :: sq2, fl2, frt2, t3r2, stop, outs)
  end.

Fixpoint new_loop (oq : list sc) (fl cw : Z) : list sc * list sc * Z * list out :=  (* moved, remaining, flight *)
  match oq with
  | [] => ([], [], fl, [])
  | c :: oq' =>
      if fl <? cw then
        let c1 := set_flags c (c_acked c) (c_abandoned c) (c_retx c) (c_misses c) (c_sent_count c + 1) in
        let '(mv, rest, fl2, outs) := new_loop oq' (fl + c_book c) cw in
        (c1 :: mv, rest, fl2, OData (c_tsn c) (c_sent_count c + 1) :: outs)
      else ([], oq, fl, [])
  end.

Definition transmit (s : tx) : tx * list out :=
  let '(fwd_out, t3a) := match fwd_chunk s with Some (cum, strs) => ([OFwd cum strs], true) | None => ([], t3 s) end in
  let burst := if match fr_exit s with Some _ => true | None => false end then 2 * MTU else 4 * MTU in
  let cw := Z.min (flight s + burst) (cwnd s) in
  let '(sq, fl, frt, t3r, stop, outs1) := retx_loop (sentq s) (flight s) cw (fr_transmit s) true false in
  let t3b := t3a || t3r in
  if stop then
    (mkTx (cwnd s) (ssthresh s) fl (fr_exit s) frt None (fwd_streams s) (last_sacked s) (adv_ack s)
          (outq s) sq (pba s) t3b (pending_tx s), fwd_out ++ outs1)
  else
    let '(mv, rest, fl2, outs2) := new_loop (outq s) fl cw in
    (mkTx (cwnd s) (ssthresh s) fl2 (fr_exit s) frt None (fwd_streams s) (last_sacked s) (adv_ack s)
          rest (sq ++ mv) (pba s) (t3b || negb (Nat.eqb (length mv) 0)) (pending_tx s), fwd_out ++ outs1 ++ outs2).

(* ---- _send: append the fragments (already built by Model/SctpSend) and transmit ---- *)
Definition send (s : tx) (chunks : list sc) : tx * list out :=
  transmit (with_q s (flight s) (outq s ++ chunks) (sentq s)).

(* ---- _receive_sack_chunk ------------------------------------------------------------ *)
Fixpoint pop_acked (sq : list sc) (cum fl : Z) (done done_bytes : Z) : list sc * Z * Z * Z :=
  match sq with
  | c :: sq' =>
      if uint32_gte cum (c_tsn c) then
        if c_acked c then pop_acked sq' cum fl (done + 1) done_bytes
        else pop_acked sq' cum (dec fl c) (done + 1) (done_bytes + c_book c)
      else (sq, fl, done, done_bytes)
  | [] => ([], fl, done, done_bytes)
  end.

Definition tsn_off (cum t : Z) : Z := (t - cum) mod SCTP_TSN_MODULO.

Definition in_gaps (gaps : list (Z * Z)) (last_pos off : Z) : bool :=
  existsb (fun g => (fst g <=? off) && (off <=? Z.min (snd g) last_pos)) gaps.

Fixpoint highest_seen (cum last_pos : Z) (gaps : list (Z * Z)) (cur : Z) : Z :=
  match gaps with
  | [] => cur
  | g :: gaps' =>
      let hi := Z.min (snd g) last_pos in
      highest_seen cum last_pos gaps' (if fst g <=? hi then (cum + hi) mod SCTP_TSN_MODULO else cur)
  end.

(* "determine HTNA": mark newly acked chunks *)
Fixpoint gap_ack (sq : list sc) (cum last_pos hs : Z) (gaps : list (Z * Z)) (fl db htna : Z)
  : list sc * Z * Z * Z :=
  match sq with
  | [] => ([], fl, db, htna)
  | c :: sq' =>
      if uint32_gt (c_tsn c) hs then (sq, fl, db, htna)
      else if in_gaps gaps last_pos (tsn_off cum (c_tsn c)) && negb (c_acked c) then
        let c1 := set_flags c true (c_abandoned c) (c_retx c) (c_misses c) (c_sent_count c) in
        let '(sq2, fl2, db2, h2) := gap_ack sq' cum last_pos hs gaps (dec fl c) (db + c_book c) (c_tsn c) in
        (c1 :: sq2, fl2, db2, h2)
      else
        let '(sq2, fl2, db2, h2) := gap_ack sq' cum last_pos hs gaps fl db htna in (c :: sq2, fl2, db2, h2)
  end.

(* "strike missing chunks prior to HTNA", zipper form; n = chunks of the snapshot still to visit *)
Fixpoint strike (n : nat) (pre : list sc) (post oq : list sc) (cum last_pos htna : Z) (gaps : list (Z * Z))
         (fl : Z) (loss : bool) (now : Z) : list sc * list sc * Z * bool :=   (* sentq, outq, flight, loss *)
  match n, post with
  | S n', c :: post' =>
      if uint32_gt (c_tsn c) htna then (rev pre ++ post, oq, fl, loss)
      else if negb (in_gaps gaps last_pos (tsn_off cum (c_tsn c))) then
        if Z.eqb (c_misses c + 1) 3 then
          let c0 := set_flags c (c_acked c) (c_abandoned c) (c_retx c) 0 (c_sent_count c) in
          let '(ab, fl1, pre1, c1, post1, oq1) := maybe_abandon fl pre c0 post' oq now in
          let c2 := set_flags c1 false (c_abandoned c1) (if ab then c_retx c1 else true) (c_misses c1) (c_sent_count c1) in
          strike n' (c2 :: pre1) post1 oq1 cum last_pos htna gaps (dec fl1 c2) true now
        else
          let c1 := set_flags c (c_acked c) (c_abandoned c) (c_retx c) (c_misses c + 1) (c_sent_count c) in
          strike n' (c1 :: pre) post' oq cum last_pos htna gaps fl loss now
      else strike n' (c :: pre) post' oq cum last_pos htna gaps fl loss now
  | _, _ => (rev pre ++ post, oq, fl, loss)
  end.

Definition last_tsn (sq : list sc) (d : Z) : Z := match rev sq with c :: _ => c_tsn c | [] => d end.

(* the highest TSN handed to the network or covered by a FORWARD-TSN: the tail of the sent queue,
   or, when it is empty, the later of the two ack points *)
Definition highest_assigned (s : tx) : Z :=
  match rev (sentq s) with
  | c :: _ => c_tsn c
  | [] => if uint32_gt (adv_ack s) (last_sacked s) then adv_ack s else last_sacked s
  end.

(* a SACK older than the last one, or acknowledging TSNs never sent, is ignored *)
Definition sack_ignored (s : tx) (cum : Z) : bool :=
  uint32_gt (last_sacked s) cum || negb (uint32_gte (highest_assigned s) cum).

Definition receive_sack (s : tx) (cum : Z) (gaps : list (Z * Z)) (now : Z) : tx * list out :=
  if sack_ignored s cum then (s, [])
  else
    let full := cwnd s <=? flight s in
    let '(sq1, fl1, done, db1) := pop_acked (sentq s) cum (flight s) 0 0 in
    let '(sq3, oq3, fl3, db3, loss) :=
      match gaps with
      | [] => (sq1, outq s, fl1, db1, false)
      | _ =>
          let last_pos := match sq1 with [] => 0 | _ => tsn_off cum (last_tsn sq1 0) end in
          let hs := highest_seen cum last_pos gaps cum in
          let '(sq2, fl2, db2, htna) := gap_ack sq1 cum last_pos hs gaps fl1 db1 cum in
          let '(sq3, oq3, fl3, loss) := strike (length sq2) [] sq2 (outq s) cum last_pos htna gaps fl2 false now in
          (sq3, oq3, fl3, db2, loss)
      end in
    let '(cw, ss, pb, fre, frt) :=
      match fr_exit s with
      | None =>
          let '(cw1, pb1) :=
            if negb (Z.eqb done 0) && full then
              if cwnd s <=? ssthresh s then (cwnd s + Z.min db3 MTU, pba s)
              else let pb := pba s + db3 in if cwnd s <=? pb then (cwnd s + MTU, pb - cwnd s) else (cwnd s, pb)
            else (cwnd s, pba s) in
          if loss then
            let ss := Z.max (cw1 / 2) (4 * MTU) in
            (ss, ss, 0, Some (last_tsn sq3 0), true)
          else (cw1, ssthresh s, pb1, None, fr_transmit s)
      | Some e => (cwnd s, ssthresh s, pba s, if uint32_gte cum e then None else Some e, fr_transmit s)
      end in
    let t3' := match sq3 with [] => false | _ => if Z.eqb done 0 then t3 s else true end in
    let s1 := mkTx cw ss fl3 fre frt (fwd_chunk s) (fwd_streams s) cum (adv_ack s) oq3 sq3 pb t3' (pending_tx s) in
    transmit (update_adv s1).

(* ---- _t3_expired --------------------------------------------------------------------- *)
Fixpoint t3_mark (n : nat) (pre post oq : list sc) (fl now : Z) : list sc * list sc * Z :=
  match n, post with
  | S n', c :: post' =>
      let '(ab, fl1, pre1, c1, post1, oq1) := maybe_abandon fl pre c post' oq now in
      let c2 := if ab then c1 else set_flags c1 (c_acked c1) (c_abandoned c1) true (c_misses c1) (c_sent_count c1) in
      t3_mark n' (c2 :: pre1) post1 oq1 fl1 now
  | _, _ => (rev pre ++ post, oq, fl)
  end.

Definition t3_expired (s : tx) (now : Z) : tx * list out :=
  let '(sq, oq, fl) := t3_mark (length (sentq s)) [] (sentq s) (outq s) (flight s) now in
  let s1 := update_adv (mkTx (cwnd s) (ssthresh s) fl (fr_exit s) (fr_transmit s) (fwd_chunk s) (fwd_streams s)
                             (last_sacked s) (adv_ack s) oq sq (pba s) false (pending_tx s)) in
  (mkTx MTU (Z.max (cwnd s / 2) (4 * MTU)) 0 None (fr_transmit s1) (fwd_chunk s1) (fwd_streams s1)
        (last_sacked s1) (adv_ack s1) (outq s1) (sentq s1) 0 false true, [OSchedTransmit]).

Inductive input :=
| ISendMsg (chunks : list sc)
| ISack (cum : Z) (gaps : list (Z * Z)) (now : Z)
| IT3 (now : Z)
| IRunTransmit.

Definition step (s : tx) (i : input) : tx * list out :=
  match i with
  | ISendMsg cs => send s cs
  | ISack cum gaps now => receive_sack s cum gaps now
  | IT3 now => if t3 s then t3_expired s now else (s, [])
  | IRunTransmit =>
      let '(s1, o) := transmit s in
      (mkTx (cwnd s1) (ssthresh s1) (flight s1) (fr_exit s1) (fr_transmit s1) (fwd_chunk s1) (fwd_streams s1)
            (last_sacked s1) (adv_ack s1) (outq s1) (sentq s1) (pba s1) (t3 s1) false, o)
  end.

Fixpoint run (s : tx) (is : list input) : tx * list (list out) :=
  match is with
  | [] => (s, [])
  | i :: is' => let '(s1, o) := step s i in let '(s2, os) := run s1 is' in (s2, o :: os)
  end.

Definition init (local_tsn peer_rwnd : Z) : tx :=
  mkTx (3 * MTU) peer_rwnd 0 None false None None (tsn_minus_one local_tsn) (tsn_minus_one local_tsn)
       [] [] 0 false false.

(* ---- glue --------------------------------------------------------------------------- *)
Definition sc_of_sx (x : sx) : sc :=
  mkSc (sx_z (sx_nth x 0)) (sx_z (sx_nth x 1)) (sx_z (sx_nth x 2)) (sx_b (sx_nth x 3)) (sx_b (sx_nth x 4))
       (sx_b (sx_nth x 5)) (sx_z (sx_nth x 6)) false false false 0 0 (sx_opt sx_z (sx_nth x 7)) (sx_opt sx_z (sx_nth x 8)).

Definition pairs (x : sx) : list (Z * Z) := map (fun p => (sx_z (sx_nth p 0), sx_z (sx_nth p 1))) (sx_l x).

Definition input_of_sx (x : sx) : input :=
  let t := sx_z (sx_nth x 0) in
  if Z.eqb t 0 then ISendMsg (map sc_of_sx (sx_l (sx_nth x 1)))
  else if Z.eqb t 1 then ISack (sx_z (sx_nth x 1)) (pairs (sx_nth x 2)) (sx_z (sx_nth x 3))
  else if Z.eqb t 2 then IT3 (sx_z (sx_nth x 1))
  else IRunTransmit.

Definition sx_of_out (o : out) : sx :=
  match o with
  | OData t n => L [A 0; A t; A n]
  | OFwd cum strs => L [A 1; A cum; L (map (fun p => L [A (fst p); A (snd p)]) strs)]
  | OSchedTransmit => L [A 2]
  end.

Definition sx_of_sc (c : sc) : sx :=
  L [A (c_tsn c); of_b (c_acked c); of_b (c_abandoned c); of_b (c_retx c); A (c_misses c); A (c_sent_count c)].

Definition sx_of_tx (s : tx) : sx :=
  L [A (cwnd s); A (ssthresh s); A (flight s); of_opt A (fr_exit s); of_b (fr_transmit s);
     match fwd_chunk s with Some (c, l) => L [A c; L (map (fun p => L [A (fst p); A (snd p)]) l)] | None => L [] end;
     A (last_sacked s); A (adv_ack s); of_zs (map c_tsn (outq s)); L (map sx_of_sc (sentq s)); A (pba s);
     of_b (t3 s)].

Fixpoint run_sx (s : tx) (is : list input) : list sx :=
  match is with
  | [] => []
  | i :: is' => let '(s1, o) := step s i in L [L (map sx_of_out o); sx_of_tx s1] :: run_sx s1 is'
  end.

(* input: (local_tsn, peer_rwnd, inputs) *)
Definition main (x : sx) : sx :=
  L (run_sx (init (sx_z (sx_nth x 0)) (sx_z (sx_nth x 1))) (map input_of_sx (sx_l (sx_nth x 2)))).
