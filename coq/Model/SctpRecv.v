(* Receiver data path of RTCSctpTransport (rtcsctptransport.py, after the repairs):
   InboundStream.add_chunk / pop_messages / prune_chunks, _mark_received,
   _sorted_misordered, _receive_data_chunk, _receive_forward_tsn_chunk and the
   SACK contents of _send_sack.  Executable definitions only.

   pop_messages is transcribed as a structurally recursive scan: the Python
   loop's (pos, start_pos) pair is represented by the split of the reassembly
   list into `kept` (chunks before start_pos that stay, reversed), `run` (the
   chunks start_pos..pos-1 of the candidate message, reversed) and `rest`
   (chunks from pos on).  Every iteration of the Python loop consumes exactly
   one chunk of `rest`. *)
From Coq Require Import ZArith List Bool.
From AV Require Import Lib.Sx Lib.Bytes Gen.Utils Gen.SctpConst.
Import ListNotations.
Local Open Scope Z_scope.

Record chunk := mkChunk {
  tsn : Z;
  sid : Z;
  sseq : Z;
  unordered : bool;   (* flags & SCTP_DATA_UNORDERED *)
  first : bool;       (* flags & SCTP_DATA_FIRST_FRAG *)
  last : bool;        (* flags & SCTP_DATA_LAST_FRAG *)
  ppid : Z;
  udata : bytes
}.

(* (stream_id, protocol, user_data) *)
Definition message := (Z * Z * bytes)%type.

(* ---- InboundStream ---------------------------------------------------------- *)
Inductive add_result := AddOk (l : list chunk) | AddAssert.

(* the for-loop of add_chunk: insert before the first chunk with a greater TSN;
   AssertionError on an equal TSN; if no chunk is greater the chunk is NOT
   inserted (the loop simply ends) *)
Fixpoint add_scan (l : list chunk) (c : chunk) : add_result :=
  match l with
  | [] => AddOk []
  | r :: l' =>
      if Z.eqb (tsn r) (tsn c) then AddAssert
      else if uint32_gt (tsn r) (tsn c) then AddOk (c :: r :: l')
      else match add_scan l' c with
           | AddOk l2 => AddOk (r :: l2)
           | AddAssert => AddAssert
           end
  end.

Definition add_chunk (l : list chunk) (c : chunk) : add_result :=
  match l with
  | [] => AddOk [c]
  | _ => if uint32_gt (tsn c) (tsn (List.last l c)) then AddOk (l ++ [c]) else add_scan l c
  end.

Definition run_state := option (list chunk * Z * bool)%type.  (* reversed run, expected_tsn, ordered *)

Definition retained (kept : list chunk) (run : run_state) (rest : list chunk) : list chunk :=
  rev kept ++ match run with Some (r, _, _) => rev r | None => [] end ++ rest.

Definition join_data (r : list chunk) : bytes := concat (map udata r).

Fixpoint pop_loop (kept : list chunk) (run : run_state) (rest : list chunk) (seq : Z)
  : list chunk * Z * list message :=
  match rest with
  | [] => (retained kept run [], seq, [])
  | c :: rest' =>
      let in_run (kept0 : list chunk) (r : list chunk) (expected : Z) (ordered : bool) :=
        if last c then
          let msg := (sid c, ppid c, join_data (rev (c :: r))) in
          let seq' := if ordered && Z.eqb (sseq c) seq then uint16_add seq 1 else seq in
          let '(l, s, ms) := pop_loop kept0 None rest' seq' in
          (l, s, msg :: ms)
        else pop_loop kept0 (Some (c :: r, tsn_plus_one expected, ordered)) rest' seq in
      (* no candidate run: c is looked at as a possible first fragment *)
      let start (kept0 : list chunk) :=
        let ordered := negb (unordered c) in
        if negb (first c) then
          if ordered then (retained kept0 None rest, seq, [])
          else pop_loop (c :: kept0) None rest' seq
        else if ordered && uint16_gt (sseq c) seq then (retained kept0 None rest, seq, [])
        else in_run kept0 [] (tsn c) ordered in
      match run with
      | None => start kept
      | Some (r, expected, ordered) =>
          if negb (Z.eqb (tsn c) expected) then
            if ordered then (retained kept run rest, seq, [])
            else start (r ++ kept)       (* the run is incomplete: c is looked at again *)
          else in_run kept r expected ordered
      end
  end.

Definition pop_messages (l : list chunk) (seq : Z) : list chunk * Z * list message :=
  pop_loop [] None l seq.

Fixpoint prune_chunks (l : list chunk) (t : Z) : list chunk * Z :=
  match l with
  | [] => ([], 0)
  | c :: l' =>
      if uint32_gte t (tsn c) then
        let '(l2, size) := prune_chunks l' t in (l2, size + len (udata c))
      else (l, 0)
  end.

(* ---- transport state ---------------------------------------------------------- *)
Record stream := mkStream { reasm : list chunk; sseq_expected : Z }.

Record rstate := mkR {
  last_rx : Z;                       (* _last_received_tsn *)
  misordered : list Z;               (* _sack_misordered (a set; kept duplicate free) *)
  duplicates : list Z;               (* _sack_duplicates *)
  streams : list (Z * stream);       (* _inbound_streams, insertion order *)
  rwnd : Z;                          (* _advertised_rwnd *)
  sack_needed : bool
}.

Definition serial_key (base t : Z) : Z := (t - base) mod SCTP_TSN_MODULO.

Fixpoint insert_by (base : Z) (t : Z) (l : list Z) : list Z :=
  match l with
  | [] => [t]
  | x :: l' => if Z.leb (serial_key base t) (serial_key base x) then t :: l else x :: insert_by base t l'
  end.

(* _sorted_misordered: ascending serial distance from the cumulative TSN *)
Definition sorted_misordered (base : Z) (l : list Z) : list Z := fold_right (insert_by base) [] l.

Definition zmem (x : Z) (l : list Z) : bool := existsb (Z.eqb x) l.

(* the consolidation loop: walk the sorted list, advance while contiguous *)
Fixpoint consolidate (cum : Z) (sorted : list Z) : Z :=
  match sorted with
  | [] => cum
  | t :: l' => if Z.eqb t (tsn_plus_one cum) then consolidate t l' else cum
  end.

Definition is_obsolete (cum x : Z) : bool := uint32_gt x cum.

(* returns (state, was_duplicate) *)
Definition mark_received (s : rstate) (t : Z) : rstate * bool :=
  if uint32_gte (last_rx s) t || zmem t (misordered s) then
    (mkR (last_rx s) (misordered s) (duplicates s ++ [t]) (streams s) (rwnd s) (sack_needed s), true)
  else
    let mis := t :: misordered s in
    let cum := consolidate (last_rx s) (sorted_misordered (last_rx s) mis) in
    (mkR cum (filter (is_obsolete cum) mis) (filter (is_obsolete cum) (duplicates s))
         (streams s) (rwnd s) (sack_needed s), false).

Fixpoint get_stream (l : list (Z * stream)) (id : Z) : stream :=
  match l with
  | [] => mkStream [] 0
  | (k, v) :: l' => if Z.eqb id k then v else get_stream l' id
  end.

Fixpoint set_stream (l : list (Z * stream)) (id : Z) (v : stream) : list (Z * stream) :=
  match l with
  | [] => [(id, v)]
  | (k, w) :: l' => if Z.eqb id k then (k, v) :: l' else (k, w) :: set_stream l' id v
  end.

Definition msgs_len (ms : list message) : Z := fold_right (fun m acc => len (snd m) + acc) 0 ms.

Inductive rresult := ROk (s : rstate) (delivered : list message) | RAssert.

Definition far_ahead (s : rstate) (t : Z) : bool :=
  let d := serial_key (last_rx s) t in (65536 <=? d) && (d <=? SCTP_TSN_MODULO / 2).

(* _receive_data_chunk *)
Definition receive_data (s0 : rstate) (c : chunk) : rresult :=
  let s := mkR (last_rx s0) (misordered s0) (duplicates s0) (streams s0) (rwnd s0) true in
  if far_ahead s (tsn c) then ROk s []
  else
  let '(s1, dup) := mark_received s (tsn c) in
  if dup then ROk s1 []
  else
    let st := get_stream (streams s1) (sid c) in
    match add_chunk (reasm st) c with
    | AddAssert => RAssert
    | AddOk l =>
        let '(l2, seq2, ms) := pop_messages l (sseq_expected st) in
        ROk (mkR (last_rx s1) (misordered s1) (duplicates s1)
                 (set_stream (streams s1) (sid c) (mkStream l2 seq2))
                 (rwnd s1 - len (udata c) + msgs_len ms) true) ms
    end.

(* _receive_forward_tsn_chunk *)
Fixpoint fwd_streams (strs : list (Z * stream)) (l : list (Z * Z)) : list (Z * stream) * list message :=
  match l with
  | [] => (strs, [])
  | (id, sq) :: l' =>
      let st := get_stream strs id in
      (* the expected sequence number is only ever advanced *)
      let seq1 := if uint16_gte sq (sseq_expected st) then uint16_add sq 1 else sseq_expected st in
      let '(l2, seq2, ms) := pop_messages (reasm st) seq1 in
      let '(strs2, ms2) := fwd_streams (set_stream strs id (mkStream l2 seq2)) l' in
      (strs2, ms ++ ms2)
  end.

Fixpoint prune_all (strs : list (Z * stream)) (t : Z) : list (Z * stream) * Z :=
  match strs with
  | [] => ([], 0)
  | (id, st) :: l' =>
      let '(r, size) := prune_chunks (reasm st) t in
      let '(l2, size2) := prune_all l' t in
      ((id, mkStream r (sseq_expected st)) :: l2, size + size2)
  end.

(* second delivery pass after pruning: poll the named streams again *)
Fixpoint repop_streams (strs : list (Z * stream)) (l : list (Z * Z)) : list (Z * stream) * list message :=
  match l with
  | [] => (strs, [])
  | (id, _) :: l' =>
      let st := get_stream strs id in
      let '(l2, seq2, ms) := pop_messages (reasm st) (sseq_expected st) in
      let '(strs2, ms2) := repop_streams (set_stream strs id (mkStream l2 seq2)) l' in
      (strs2, ms ++ ms2)
  end.

Definition receive_forward_tsn (s0 : rstate) (cum : Z) (strs : list (Z * Z)) : rstate * list message :=
  let s := mkR (last_rx s0) (misordered s0) (duplicates s0) (streams s0) (rwnd s0) true in
  if uint32_gte (last_rx s) cum then (s, [])
  else
    (* the Python closure is_obsolete reads _last_received_tsn when called *)
    let mis1 := filter (is_obsolete cum) (misordered s) in
    let cum2 := consolidate cum (sorted_misordered cum mis1) in
    let dups := filter (is_obsolete cum2) (duplicates s) in
    let mis2 := filter (is_obsolete cum2) mis1 in
    let '(strs2, ms) := fwd_streams (streams s) strs in
    let '(strs3, pruned) := prune_all strs2 cum in
    let '(strs4, ms') := repop_streams strs3 strs in
    (mkR cum2 mis2 dups strs4 (rwnd s + msgs_len ms + pruned + msgs_len ms') true, ms ++ ms').

(* _send_sack: gap blocks over the serially sorted out-of-order TSNs *)
Fixpoint gap_blocks (cum : Z) (sorted : list Z) (cur : option (Z * Z * Z)) : list (Z * Z) :=
  (* cur = (start_pos, end_pos, gap_next) *)
  match sorted with
  | [] => match cur with Some (a, b, _) => [(a, b)] | None => [] end
  | t :: l' =>
      let pos := serial_key cum t in
      match cur with
      | Some (a, b, nxt) =>
          if Z.eqb t nxt then gap_blocks cum l' (Some (a, pos, tsn_plus_one t))
          else (a, b) :: gap_blocks cum l' (Some (pos, pos, tsn_plus_one t))
      | None => gap_blocks cum l' (Some (pos, pos, tsn_plus_one t))
      end
  end.

Record sack := mkSack { s_cum : Z; s_rwnd : Z; s_gaps : list (Z * Z); s_dups : list Z }.

Definition make_sack (s : rstate) : sack * rstate :=
  (mkSack (last_rx s) (Z.max 0 (rwnd s))
          (gap_blocks (last_rx s) (sorted_misordered (last_rx s) (misordered s)) None)
          (duplicates s),
   mkR (last_rx s) (misordered s) [] (streams s) (rwnd s) false).

(* one received packet = one chunk here; a SACK is sent when needed *)
Inductive revent := EvData (c : chunk) | EvFwd (cum : Z) (strs : list (Z * Z)).

Inductive rout := OutOk (delivered : list message) (sk : option sack) | OutAssert.

Definition rstep (s : rstate) (e : revent) : rstate * rout :=
  match e with
  | EvData c =>
      match receive_data s c with
      | RAssert => (s, OutAssert)
      | ROk s1 ms => let '(sk, s2) := make_sack s1 in (s2, OutOk ms (Some sk))
      end
  | EvFwd cum strs =>
      let '(s1, ms) := receive_forward_tsn s cum strs in
      let '(sk, s2) := make_sack s1 in (s2, OutOk ms (Some sk))
  end.

Fixpoint rrun (s : rstate) (es : list revent) : rstate * list rout :=
  match es with
  | [] => (s, [])
  | e :: es' => let '(s1, o) := rstep s e in let '(s2, os) := rrun s1 es' in (s2, o :: os)
  end.

Definition rinit (last_received : Z) : rstate := mkR last_received [] [] [] 1048576 false.

(* ---- s-expression glue --------------------------------------------------------- *)
Definition chunk_of_sx (x : sx) : chunk :=
  mkChunk (sx_z (sx_nth x 0)) (sx_z (sx_nth x 1)) (sx_z (sx_nth x 2)) (sx_b (sx_nth x 3))
          (sx_b (sx_nth x 4)) (sx_b (sx_nth x 5)) (sx_z (sx_nth x 6)) (sx_zs (sx_nth x 7)).

Definition ev_of_sx (x : sx) : revent :=
  if Z.eqb (sx_z (sx_nth x 0)) 0 then EvData (chunk_of_sx (sx_nth x 1))
  else EvFwd (sx_z (sx_nth x 1)) (map (fun p => (sx_z (sx_nth p 0), sx_z (sx_nth p 1))) (sx_l (sx_nth x 2))).

Definition sx_of_msg (m : message) : sx := L [A (fst (fst m)); A (snd (fst m)); of_zs (snd m)].

Definition sx_of_state (s : rstate) : sx :=
  L [A (last_rx s); of_zs (sorted_misordered (last_rx s) (misordered s)); of_zs (duplicates s);
     L (map (fun kv => L [A (fst kv); of_zs (map tsn (reasm (snd kv))); A (sseq_expected (snd kv))]) (streams s));
     A (rwnd s)].

Definition sx_of_out (o : rout) : sx :=
  match o with
  | OutAssert => L [A ERR_CRASH]
  | OutOk ms sk =>
      L [L (map sx_of_msg ms);
         match sk with
         | None => L []
         | Some k => L [A (s_cum k); A (s_rwnd k);
                        L (map (fun g => L [A (fst g); A (snd g)]) (s_gaps k)); of_zs (s_dups k)]
         end]
  end.

(* input: (last_received, events) ; output: per event (out, state snapshot) *)
Fixpoint run_sx (s : rstate) (es : list revent) : list sx :=
  match es with
  | [] => []
  | e :: es' => let '(s1, o) := rstep s e in L [sx_of_out o; sx_of_state s1] :: run_sx s1 es'
  end.

(* optional third field: the receiver window at the start (0 / absent = the default 1 MiB), so that
   short event lists reach an exhausted window *)
Definition main (x : sx) : sx :=
  let s0 := rinit (sx_z (sx_nth x 0)) in
  let w := sx_z (sx_nth x 2) in
  let s1 := if Z.eqb w 0 then s0
            else mkR (last_rx s0) (misordered s0) (duplicates s0) (streams s0) w (sack_needed s0) in
  L (run_sx s1 (map ev_of_sx (sx_l (sx_nth x 1)))).
