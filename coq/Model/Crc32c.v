(* CRC-32C (Castagnoli) as computed by google_crc32c.value, the function that
   aiortc.rtcsctptransport uses for the SCTP checksum (RFC 4960 appendix B).
   Reflected bit-serial LFSR over `list bool`: the register is a list of 32
   bits, index 0 = least significant bit; data bits are consumed least
   significant bit of each byte first; polynomial 0x82F63B78 (reflected form),
   initial register and final xor 0xFFFFFFFF.  No proofs here. *)
From Coq Require Import ZArith List Bool.
From AV Require Import Lib.Sx Lib.Bytes.
Import ListNotations.
Local Open Scope Z_scope.

Definition bits := list bool.

Fixpoint xor_bits (a b : bits) : bits :=
  match a, b with
  | x :: a', y :: b' => xorb x y :: xor_bits a' b'
  | _, _ => []
  end.

(* fb * l  (scalar product in GF(2)) *)
Definition scale (fb : bool) (l : bits) : bits := map (andb fb) l.

(* bit i of z, i = 0 .. n-1 *)
Fixpoint z_bits (n : nat) (z : Z) : bits :=
  match n with
  | O => []
  | S n' => Z.odd z :: z_bits n' (z / 2)
  end.

Fixpoint bits_z (l : bits) : Z :=
  match l with
  | [] => 0
  | b :: l' => bits_z l' * 2 + Z.b2z b
  end.

Definition POLY : Z := 2197175160.            (* 0x82F63B78 *)
Definition poly : bits := z_bits 32 POLY.
Definition zeros32 : bits := repeat false 32.
Definition ones32 : bits := repeat true 32.

(* one clock of the LFSR with input bit b:
     fb = lsb(reg) xor b;  reg >>= 1;  if fb: reg ^= POLY *)
Definition step (s : bits) (b : bool) : bits :=
  match s with
  | [] => []
  | s0 :: rest => xor_bits (rest ++ [false]) (scale (xorb s0 b) poly)
  end.

Definition run (s : bits) (input : bits) : bits := fold_left step input s.

Definition byte_bits (b : Z) : bits := z_bits 8 b.
Definition bytes_bits (data : bytes) : bits := flat_map byte_bits data.

Definition crc32c_bits (input : bits) : bits := map negb (run ones32 input).

(* google_crc32c.value(data) *)
Definition crc32c (data : bytes) : Z := bits_z (crc32c_bits (bytes_bits data)).

(* ---- s-expression glue: input = list of bytes, output = crc ------------- *)
Definition main (x : sx) : sx := A (crc32c (sx_zs x)).
